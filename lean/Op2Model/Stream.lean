import Op2Model.Basic
/-!
# Op2Model.Stream — readers and writers (C12, C13, C14)

* `RSpec` — the abstract reader: data, a position, all arithmetic in ℕ, failure is a no-op.
* `MemR`  — `MemoryReader` with its guards as written (u64 arithmetic, every `+`/`−` reduced).
* `FileR` — `FileReader` over `std::ifstream`, *in-bounds behaviour only* (trusted base).
* `Slice W` — `SliceReader<W>`: guards in u64 arithmetic in front of a wrapped reader.
* `MemW`, `DynW` — `MemoryWriter`, `DynamicMemoryWriter`.
-/
namespace Op2.Stream
open Op2

/-- outcome of one reader operation as a caller observes it -/
inductive Out where
  | bytes (b : Bytes)
  | unit
  | err
  deriving DecidableEq, Repr

inductive ROp where
  | read (k : Nat) | readPartial (k : Nat) | peek (k : Nat)
  | seek (p : Nat) | fwd (d : Nat) | back (d : Nat) | seekBegin | seekEnd
  deriving DecidableEq, Repr

def ROp.argOk : ROp → Prop
  | .read k | .readPartial k | .peek k | .seek k | .fwd k | .back k => k < W64
  | .seekBegin | .seekEnd => True

/-! ## the abstract reader -/

structure RSpec where
  data : Bytes
  pos : Nat
  deriving DecidableEq, Repr

namespace RSpec
def Inv (s : RSpec) : Prop := s.pos ≤ s.data.length ∧ s.data.length < W64

def window (s : RSpec) (k : Nat) : Bytes := (s.data.drop s.pos).take k

def step (s : RSpec) : ROp → Out × RSpec
  | .read k => if s.pos + k ≤ s.data.length then (.bytes (s.window k), { s with pos := s.pos + k }) else (.err, s)
  | .readPartial k =>
      let n := min k (s.data.length - s.pos)
      (.bytes (s.window n), { s with pos := s.pos + n })
  | .peek k => if s.pos + k ≤ s.data.length then (.bytes (s.window k), s) else (.err, s)
  | .seek p => if p ≤ s.data.length then (.unit, { s with pos := p }) else (.err, s)
  | .fwd d => if s.pos + d ≤ s.data.length then (.unit, { s with pos := s.pos + d }) else (.err, s)
  | .back d => if d ≤ s.pos then (.unit, { s with pos := s.pos - d }) else (.err, s)
  | .seekBegin => (.unit, { s with pos := 0 })
  | .seekEnd => (.unit, { s with pos := s.data.length })
end RSpec

def runWith {σ : Type} (f : σ → ROp → Out × σ) : σ → List ROp → List Out
  | _, [] => []
  | s, op :: ops => (f s op).1 :: runWith f (f s op).2 ops

/-! ## MemoryReader -/

/-- `MemoryReader`: a view `data` (the `streamSize` bytes at `streamBuffer`) and `position` -/
abbrev MemR := RSpec

namespace MemR
/-- `ReadImplementation`:  `if (size > streamSize - position) throw` -/
def read (s : MemR) (k : Nat) : Except Err (Bytes × MemR) :=
  if k > u64 (W64 + s.data.length - s.pos) then .error .bounds
  else .ok (s.window k, { s with pos := u64 (s.pos + k) })

/-- `ReadPartial`: `bytesLeft = streamSize - position; n = size < bytesLeft ? size : bytesLeft; position += n` -/
def readPartial (s : MemR) (k : Nat) : Bytes × MemR :=
  let left := u64 (W64 + s.data.length - s.pos)
  let n := if k < left then k else left
  (s.window n, { s with pos := u64 (s.pos + n) })

def seek (s : MemR) (p : Nat) : Except Err MemR :=
  if p > s.data.length then .error .bounds else .ok { s with pos := p }

/-- `SeekForward`: `newPosition = position + offset; if (newPosition > streamSize || newPosition < position) throw` -/
def fwd (s : MemR) (d : Nat) : Except Err MemR :=
  let np := u64 (s.pos + d)
  if np > s.data.length ∨ np < s.pos then .error .bounds else .ok { s with pos := np }

def back (s : MemR) (d : Nat) : Except Err MemR :=
  if d > s.pos then .error .bounds else .ok { s with pos := u64 (W64 + s.pos - d) }

/-- `BidirectionalReader::Peek` = `ReadImplementation` then `SeekBackward(size)` -/
def peek (s : MemR) (k : Nat) : Except Err (Bytes × MemR) :=
  match read s k with
  | .error e => .error e
  | .ok (b, s') => match back s' k with
    | .error e => .error e
    | .ok s'' => .ok (b, s'')

/-- `ForwardReader::SeekEnd` = `SeekForward(Length() - Position())` -/
def seekEnd (s : MemR) : Except Err MemR := fwd s (u64 (W64 + s.data.length - s.pos))

/-- one public operation; an exception leaves the object as it was -/
def step (s : MemR) : ROp → Out × MemR
  | .read k => match read s k with | .ok (b, s') => (.bytes b, s') | .error _ => (.err, s)
  | .readPartial k => let (b, s') := readPartial s k; (.bytes b, s')
  | .peek k => match peek s k with | .ok (b, s') => (.bytes b, s') | .error _ => (.err, s)
  | .seek p => match seek s p with | .ok s' => (.unit, s') | .error _ => (.err, s)
  | .fwd d => match fwd s d with | .ok s' => (.unit, s') | .error _ => (.err, s)
  | .back d => match back s d with | .ok s' => (.unit, s') | .error _ => (.err, s)
  | .seekBegin => match seek s 0 with | .ok s' => (.unit, s') | .error _ => (.err, s)
  | .seekEnd => match seekEnd s with | .ok s' => (.unit, s') | .error _ => (.err, s)

/-- `Slice(start, length) const`: the two-argument form -/
def slice2 (s : MemR) (start len : Nat) : Except Err MemR :=
  if u64 (start + len) > s.data.length ∨ u64 (start + len) < start then .error .bounds
  else .ok { data := (s.data.drop start).take len, pos := 0 }

/-- `Slice(length)`: slice at the current position, then advance the parent; returns (slice, parent') -/
def slice1 (s : MemR) (len : Nat) : Except Err (MemR × MemR) :=
  match slice2 s s.pos len with
  | .error e => .error e
  | .ok sl => match fwd s len with
    | .error e => .error e
    | .ok s' => .ok (sl, s')
end MemR

/-! ## what `SliceReader` needs of the stream it wraps -/

/-- the operations of a wrapped reader.  `SliceReader` only ever calls them in-bounds. -/
structure Wrapped (σ : Type) where
  length : σ → Nat
  position : σ → Nat
  read : σ → Nat → Except Err (Bytes × σ)
  readPartial : σ → Nat → Bytes × σ
  seek : σ → Nat → Except Err σ
  fwd : σ → Nat → Except Err σ
  back : σ → Nat → Except Err σ

def memWrapped : Wrapped MemR where
  length s := s.data.length
  position s := s.pos
  read := MemR.read
  readPartial := MemR.readPartial
  seek := MemR.seek
  fwd := MemR.fwd
  back := MemR.back

/-! ## FileReader (in-bounds behaviour of `std::ifstream`; trusted base) -/

/-- a file opened for reading: content and get position.  After the D5 repair a failed or short
    read leaves no sticky error state, so no flag is needed. -/
abbrev FileR := RSpec

namespace FileR
/-- `file.read`; on a short read: `clear()`, restore the position, throw -/
def read (s : FileR) (k : Nat) : Except Err (Bytes × FileR) :=
  if s.pos + k ≤ s.data.length then .ok (s.window k, { s with pos := s.pos + k }) else .error .bounds
/-- `file.read` + `gcount()` (then `clear()` if the read came up short) -/
def readPartial (s : FileR) (k : Nat) : Bytes × FileR :=
  let n := min k (s.data.length - s.pos)
  (s.window n, { s with pos := s.pos + n })
/-- `seekg(position)`: no bound check of its own -/
def seek (s : FileR) (p : Nat) : Except Err FileR := .ok { s with pos := p }
def fwd (s : FileR) (d : Nat) : Except Err FileR :=
  let np := u64 (s.pos + d)
  if np < s.pos then .error .bounds else .ok { s with pos := np }
def back (s : FileR) (d : Nat) : Except Err FileR :=
  if d > s.pos then .error .bounds else .ok { s with pos := s.pos - d }
end FileR

def fileWrapped : Wrapped FileR where
  length s := s.data.length
  position s := s.pos
  read := FileR.read
  readPartial := FileR.readPartial
  seek := FileR.seek
  fwd := FileR.fwd
  back := FileR.back

/-! ## SliceReader<W> -/

structure Slice (σ : Type) where
  w : σ
  start : Nat
  len : Nat

namespace Slice
variable {σ : Type} (W : Wrapped σ)

/-- `Position()` : `wrappedStream.Position() - startingOffset` (u64) -/
def position (s : Slice σ) : Nat := u64 (W64 + W.position s.w - s.start)

/-- constructor: overflow check, then `Initialize()` (end check against the source, seek to start) -/
def create (w : σ) (start len : Nat) : Except Err (Slice σ) :=
  if len > W64 - 1 - start then .error .bounds
  else if u64 (start + len) > W.length w then .error .bounds
  else match W.seek w start with
    | .error e => .error e
    | .ok w' => .ok { w := w', start := start, len := len }

/-- `ReadImplementation`: `if (size > sliceLength - Position()) throw; wrappedStream.Read(...)` -/
def read (s : Slice σ) (k : Nat) : Except Err (Bytes × Slice σ) :=
  if k > u64 (W64 + s.len - position W s) then .error .bounds
  else match W.read s.w k with
    | .error e => .error e
    | .ok (b, w') => .ok (b, { s with w := w' })

def readPartial (s : Slice σ) (k : Nat) : Bytes × Slice σ :=
  let left := u64 (W64 + s.len - position W s)
  let n := if k < left then k else left
  let (b, w') := W.readPartial s.w n
  (b, { s with w := w' })

def seek (s : Slice σ) (p : Nat) : Except Err (Slice σ) :=
  if p > s.len then .error .bounds
  else match W.seek s.w (u64 (s.start + p)) with
    | .error e => .error e
    | .ok w' => .ok { s with w := w' }

/-- `SeekForward`: `if (offset > sliceLength - Position()) throw` -/
def fwd (s : Slice σ) (d : Nat) : Except Err (Slice σ) :=
  if d > u64 (W64 + s.len - position W s) then .error .bounds
  else match W.fwd s.w d with
    | .error e => .error e
    | .ok w' => .ok { s with w := w' }

def back (s : Slice σ) (d : Nat) : Except Err (Slice σ) :=
  if d > position W s then .error .bounds
  else match W.back s.w d with
    | .error e => .error e
    | .ok w' => .ok { s with w := w' }

def peek (s : Slice σ) (k : Nat) : Except Err (Bytes × Slice σ) :=
  match read W s k with
  | .error e => .error e
  | .ok (b, s') => match back W s' k with
    | .error e => .error e
    | .ok s'' => .ok (b, s'')

def seekEnd (s : Slice σ) : Except Err (Slice σ) := fwd W s (u64 (W64 + s.len - position W s))

def step (s : Slice σ) : ROp → Out × Slice σ
  | .read k => match read W s k with | .ok (b, s') => (.bytes b, s') | .error _ => (.err, s)
  | .readPartial k => let (b, s') := readPartial W s k; (.bytes b, s')
  | .peek k => match peek W s k with | .ok (b, s') => (.bytes b, s') | .error _ => (.err, s)
  | .seek p => match seek W s p with | .ok s' => (.unit, s') | .error _ => (.err, s)
  | .fwd d => match fwd W s d with | .ok s' => (.unit, s') | .error _ => (.err, s)
  | .back d => match back W s d with | .ok s' => (.unit, s') | .error _ => (.err, s)
  | .seekBegin => match seek W s 0 with | .ok s' => (.unit, s') | .error _ => (.err, s)
  | .seekEnd => match seekEnd W s with | .ok s' => (.unit, s') | .error _ => (.err, s)

/-- `Slice(start, length) const` on a slice: a new slice of the same wrapped stream (copied) -/
def slice2 (s : Slice σ) (start len : Nat) : Except Err (Slice σ) :=
  if u64 (start + len) > s.len ∨ len > W64 - 1 - start then .error .bounds
  else create W s.w (u64 (s.start + start)) len

/-- `Slice(length)`: at the current position; advance this slice on success; returns (new, parent') -/
def slice1 (s : Slice σ) (len : Nat) : Except Err (Slice σ × Slice σ) :=
  match slice2 W s (position W s) len with
  | .error e => .error e
  | .ok sl => match fwd W s len with
    | .error e => .error e
    | .ok s' => .ok (sl, s')

/-- a slice is itself a reader that can be wrapped (slice of slice of …) -/
def asWrapped : Wrapped (Slice σ) where
  length s := s.len
  position s := position W s
  read := read W
  readPartial := readPartial W
  seek := seek W
  fwd := fwd W
  back := back W
end Slice

/-! ## writers -/

/-- `MemoryWriter`: a fixed buffer and an offset -/
structure MemW where
  buf : Bytes
  pos : Nat
  deriving DecidableEq, Repr

inductive WOp where
  | write (b : Bytes) | seek (p : Nat) | fwd (d : Nat) | back (d : Nat) | seekBegin | seekEnd
  deriving DecidableEq, Repr

/-- replace `b.length` bytes of `buf` at offset `pos` -/
def patch (buf : Bytes) (pos : Nat) (b : Bytes) : Bytes := buf.take pos ++ b ++ buf.drop (pos + b.length)

namespace MemW
/-- `WriteImplementation`: `if (size > streamSize - offset) throw` -/
def write (s : MemW) (b : Bytes) : Except Err MemW :=
  if b.length > u64 (W64 + s.buf.length - s.pos) then .error .bounds
  else .ok { buf := patch s.buf s.pos b, pos := u64 (s.pos + b.length) }
def seek (s : MemW) (p : Nat) : Except Err MemW :=
  if p > s.buf.length then .error .bounds else .ok { s with pos := p }
/-- `SeekForward`: `if (offset > streamSize - this->offset) throw; Seek(this->offset + offset)` -/
def fwd (s : MemW) (d : Nat) : Except Err MemW :=
  if d > u64 (W64 + s.buf.length - s.pos) then .error .bounds else seek s (u64 (s.pos + d))
/-- `SeekBackward`: `if (offset > this->offset) throw; Seek(this->offset - offset)` -/
def back (s : MemW) (d : Nat) : Except Err MemW :=
  if d > s.pos then .error .bounds else seek s (u64 (W64 + s.pos - d))
def step (s : MemW) : WOp → Bool × MemW
  | .write b => match write s b with | .ok s' => (true, s') | .error _ => (false, s)
  | .seek p => match seek s p with | .ok s' => (true, s') | .error _ => (false, s)
  | .fwd d => match fwd s d with | .ok s' => (true, s') | .error _ => (false, s)
  | .back d => match back s d with | .ok s' => (true, s') | .error _ => (false, s)
  | .seekBegin => match seek s 0 with | .ok s' => (true, s') | .error _ => (false, s)
  | .seekEnd => match fwd s (u64 (W64 + s.buf.length - s.pos)) with | .ok s' => (true, s') | .error _ => (false, s)
end MemW

/-- `DynamicMemoryWriter`: the content; position = length.  `cap` models `vector::max_size()`. -/
structure DynW where
  content : Bytes
  deriving DecidableEq, Repr

def dynCap : Nat := 9223372036854775807   -- std::vector<uint8_t>::max_size() on LP64

namespace DynW
def write (s : DynW) (b : Bytes) : DynW := { content := s.content ++ b }
def fwd (s : DynW) (d : Nat) : Except Err DynW :=
  if d > W64 - 1 - s.content.length then .error .bounds
  else if s.content.length + d > dynCap then .error .alloc
  else .ok { content := s.content ++ zeros d }
def back (s : DynW) (d : Nat) : Except Err DynW :=
  if d > s.content.length then .error .bounds else .ok { content := s.content.take (s.content.length - d) }
/-- `Seek(p)`: `resize(p, 0)` — truncate or zero-fill -/
def seek (s : DynW) (p : Nat) : Except Err DynW :=
  if p > dynCap then .error .alloc
  else if p ≤ s.content.length then .ok { content := s.content.take p }
  else .ok { content := s.content ++ zeros (p - s.content.length) }
def step (s : DynW) : WOp → Bool × DynW
  | .write b => (true, write s b)
  | .seek p => match seek s p with | .ok s' => (true, s') | .error _ => (false, s)
  | .fwd d => match fwd s d with | .ok s' => (true, s') | .error _ => (false, s)
  | .back d => match back s d with | .ok s' => (true, s') | .error _ => (false, s)
  | .seekBegin => match seek s 0 with | .ok s' => (true, s') | .error _ => (false, s)
  | .seekEnd => match fwd s 0 with | .ok s' => (true, s') | .error _ => (false, s)
end DynW

/-- abstract growing writer: what the history implies -/
def dynSpec (c : Bytes) : WOp → Bool × Bytes
  | .write b => (true, c ++ b)
  | .seek p => if p > dynCap then (false, c) else (true, if p ≤ c.length then c.take p else c ++ zeros (p - c.length))
  | .fwd d => if c.length + d > dynCap then (false, c) else (true, c ++ zeros d)
  | .back d => if d ≤ c.length then (true, c.take (c.length - d)) else (false, c)
  | .seekBegin => (true, [])
  | .seekEnd => (true, c)

/-! ## `Writer::Write(Reader&)` — the copy loop -/

/-- `do { n = reader.ReadPartial(buf, B); writer.Write(buf, n); } while (n);` with fuel -/
def copyLoop (B : Nat) : Nat → RSpec → Bytes → RSpec × Bytes
  | 0, r, w => (r, w)
  | fuel + 1, r, w =>
    let n := min B (r.data.length - r.pos)
    let chunk := r.window n
    let r' := { r with pos := r.pos + n }
    let w' := w ++ chunk
    if chunk.length = 0 then (r', w') else copyLoop B fuel r' w'

/-! ## typed helpers -/

/-- largest value of a size prefix of `width` bytes (`std::numeric_limits<SizeType>::max()`) -/
def prefixMax (width : Nat) (signed : Bool) : Nat := if signed then 2 ^ (8 * width - 1) - 1 else 2 ^ (8 * width) - 1

/-- `Write<SizeType>(container)`: refuse instead of truncating (or, for a signed prefix, writing a negative size) -/
def writePrefixed (width : Nat) (signed : Bool) (payload : Bytes) (count : Nat) : Except Err Bytes :=
  if count > prefixMax width signed then .error .refused
  else .ok ((List.range width).map (fun i => UInt8.ofNat (count / 2 ^ (8 * i))) ++ payload)

end Op2.Stream

namespace Op2.Stream
/-! ## typed read helpers, generic in the reader's `read` (they depend on nothing else) -/

/-- `ReadNullTerminatedString(maxCount)`: one byte at a time; stops after the NUL or after `maxCount`
    characters.  Fuel = number of characters that can still be appended (`min maxCount remaining+1`). -/
def readNT {σ : Type} (rd : σ → Nat → Except Err (Bytes × σ)) : Nat → σ → Bytes → Except Err (Bytes × σ)
  | 0, s, acc => .ok (acc.reverse, s)
  | fuel + 1, s, acc =>
    match rd s 1 with
    | .error e => .error e
    | .ok (b, s') =>
      match b with
      | [c] => if c = 0 then .ok (acc.reverse, s') else readNT rd fuel s' (c :: acc)
      | _ => .error .format

/-- little-endian value of a byte list -/
def leVal : Bytes → Nat
  | [] => 0
  | b :: bs => b.toNat + 256 * leVal bs

/-- `Read<SizeType>(container)`: prefix of `width` bytes (signed or not), element size `esz`.
    `allocCap`: the harness's allocation cap in bytes (attacker-sized `resize`). -/
def readPrefixed {σ : Type} (rd : σ → Nat → Except Err (Bytes × σ)) (width : Nat) (signed : Bool) (esz : Nat)
    (maxSize allocCap : Nat) (s : σ) : Except Err (Bytes × σ) :=
  match rd s width with
  | .error e => .error e
  | .ok (pb, s') =>
    let n := leVal pb
    if signed ∧ n ≥ 2 ^ (8 * width - 1) then .error .refused        -- negative size
    else if n > maxSize then .error .refused                          -- larger than max_size()
    else if n * esz ≥ allocCap then .error .alloc
    else rd s' (n * esz)
end Op2.Stream

namespace Op2.Stream
/-! ## FileWriter open flags (C14) -/

structure OpenFlags where
  canOpenExisting : Bool
  canOpenNew : Bool
  truncate : Bool
  append : Bool
  deriving DecidableEq, Repr

/-- what happens to the destination before the first write -/
inductive OpenOutcome where
  | refused        -- constructor throws; the file system is left as it was
  | createdEmpty   -- the file did not exist and is created empty
  | truncated      -- existing content discarded
  | appended       -- existing content kept, writes go after it
  deriving DecidableEq, Repr

/-- `std::ofstream(name, out | binary [| trunc] [| app | ate])` on an existing file keeps the content
    only in append mode (assumed behaviour of libstdc++, checked on disk by the `fw.open` group) -/
def ofstreamKeeps (iosTrunc iosApp : Bool) : Bool := iosApp && !iosTrunc

/-- `FileWriter::FileWriter` + `TranslateFlags`, in the order the code checks -/
def openFile (f : OpenFlags) (fileExists : Bool) : OpenOutcome :=
  if !(f.canOpenExisting || f.canOpenNew) then .refused
  else if f.truncate && f.append then .refused
  else if !f.canOpenExisting && fileExists then .refused
  else if !f.canOpenNew && !fileExists then .refused
  else if !fileExists then .createdEmpty
  else if ofstreamKeeps f.truncate f.append then .appended else .truncated

/-- the documented meaning of the flags; `none` where they say nothing about prior content
    (an existing file opened with neither `Truncate` nor `Append`) -/
def openDocumented (f : OpenFlags) (fileExists : Bool) : Option OpenOutcome :=
  if !f.canOpenExisting && !f.canOpenNew then some .refused
  else if f.truncate && f.append then some .refused
  else if fileExists && !f.canOpenExisting then some .refused
  else if !fileExists && !f.canOpenNew then some .refused
  else if !fileExists then some .createdEmpty
  else if f.truncate then some .truncated
  else if f.append then some .appended
  else none

/-! ## FileWriter sessions after a successful open (C14): seeks and writes on the open file -/

/-- an open `FileWriter`: bytes on disk (after every flush), put position, and whether the descriptor is in append
    mode (`std::ios_base::app`: every write lands at the end of the file, wherever the put position was moved) -/
structure FileW where
  content : Bytes
  pos : Nat
  app : Bool
  deriving DecidableEq, Repr

/-- write `b` at `pos` of a file of content `c` in non-append mode: a gap beyond the end reads back as zeros -/
def fileStore (c : Bytes) (pos : Nat) (b : Bytes) : Bytes :=
  if b.isEmpty then c
  else (c ++ List.replicate (pos - c.length) 0).take pos ++ b ++ c.drop (pos + b.length)

namespace FileW
/-- the session a successful open starts: `Append` opens the descriptor in append mode (also when it creates the
    file) and on an existing file starts at its end (`ate`) -/
def opened (f : OpenFlags) (prior : Option Bytes) : Option FileW :=
  match openFile f prior.isSome with
  | .refused => none
  | .createdEmpty | .truncated => some { content := [], pos := 0, app := f.append }
  | .appended => some { content := prior.getD [], pos := (prior.getD []).length, app := true }

/-- one `FileWriter` operation (arguments far below 2^63: the wrap-around guards of the seeks are not modelled) -/
def step (s : FileW) : WOp → Bool × FileW
  | .write b =>
      -- `tellp` is the put position plus what is still buffered, also in append mode (writes smaller than the stream buffer)
      if s.app then (true, { s with content := s.content ++ b, pos := s.pos + b.length })
      else (true, { s with content := fileStore s.content s.pos b, pos := s.pos + b.length })
  | .seek p => (true, { s with pos := p })
  | .fwd d => (true, { s with pos := s.pos + d })
  | .back d => if d > s.pos then (false, s) else (true, { s with pos := s.pos - d })
  | .seekBegin => (true, { s with pos := 0 })
  -- `SeekForward(Length() - Position())`: beyond the end the difference wraps and the overflow guard refuses
  | .seekEnd => if s.pos > s.content.length then (false, s) else (true, { s with pos := s.content.length })

def run (s : FileW) : List WOp → FileW
  | [] => s
  | op :: ops => run (step s op).2 ops

/-- the bytes the history wrote, in order -/
def written : List WOp → Bytes
  | [] => []
  | .write b :: ops => b ++ written ops
  | _ :: ops => written ops
end FileW

/-- content of the destination after open, one write of `b`, close -/
def openWriteClose (f : OpenFlags) (prior : Option Bytes) (b : Bytes) : Option Bytes × Bool :=
  match openFile f prior.isSome with
  | .refused => (prior, false)
  | .createdEmpty | .truncated => (some b, true)
  | .appended => (some (prior.getD [] ++ b), true)
end Op2.Stream
