/-!
# Op2Model.Basic — bytes, little-endian codecs, fixed-width wrap-around

Conventions (DESIGN §3): buffers and files are `List UInt8`; C++ fixed-width unsigned
arithmetic is `Nat` reduced explicitly (`u32`, `u64`); nothing is hidden in a Lean
machine-integer type so that `omega` sees every wrap.
-/

abbrev Bytes := List UInt8

namespace Op2

def W8  : Nat := 256
def W16 : Nat := 65536
def W32 : Nat := 4294967296
def W64 : Nat := 18446744073709551616
/- NOTE for model code: never write `x + W64` with symbolic `x` (always `W64 + x`): `Nat.add` recurses on its
   second argument, and any definitional unfolding (equation lemmas, `unfold`, `rfl`) then peels the literal
   into 2^64 successors and never returns. -/


@[inline] def u8  (x : Nat) : Nat := x % W8
@[inline] def u16 (x : Nat) : Nat := x % W16
@[inline] def u32 (x : Nat) : Nat := x % W32
@[inline] def u64 (x : Nat) : Nat := x % W64

/-- two's complement reading of a 32-bit word -/
def i32 (x : Nat) : Int := if x % W32 < 2147483648 then (x % W32 : Nat) else (x % W32 : Nat) - (W32 : Int)

/-- 32-bit word of an `Int` (two's complement) -/
def ofI32 (x : Int) : Nat := (x % (W32 : Int)).toNat

/-- errors are not distinguished by message, only by kind (DESIGN §3) -/
inductive Err where
  | bounds    -- a stream / index bound was exceeded
  | format    -- the data does not have the expected form
  | refused   -- the operation was refused up front (argument check)
  | alloc     -- an attacker-sized allocation
  deriving DecidableEq, Repr, Inhabited

/-! ## little-endian codecs -/

def encU8  (v : Nat) : Bytes := [UInt8.ofNat v]
def encU16 (v : Nat) : Bytes := [UInt8.ofNat v, UInt8.ofNat (v / 256)]
def encU32 (v : Nat) : Bytes :=
  [UInt8.ofNat v, UInt8.ofNat (v / 256), UInt8.ofNat (v / 65536), UInt8.ofNat (v / 16777216)]

def decU16 : Bytes → Nat
  | a :: b :: _ => a.toNat + 256 * b.toNat
  | _ => 0
def decU32 : Bytes → Nat
  | a :: b :: c :: d :: _ => a.toNat + 256 * b.toNat + 65536 * c.toNat + 16777216 * d.toNat
  | _ => 0

def encU32s (vs : List Nat) : Bytes := vs.flatMap encU32
def encU16s (vs : List Nat) : Bytes := vs.flatMap encU16

/-- split a byte list into `n` little-endian 32-bit words (input must hold `4*n` bytes) -/
def decU32s : Nat → Bytes → List Nat
  | 0, _ => []
  | n + 1, bs => decU32 bs :: decU32s n (bs.drop 4)

def decU16s : Nat → Bytes → List Nat
  | 0, _ => []
  | n + 1, bs => decU16 bs :: decU16s n (bs.drop 2)

def zeros (n : Nat) : Bytes := List.replicate n 0

def asciiBytes (s : String) : Bytes := s.toUTF8.toList

/-! ## hex and hashing for the line protocol -/

def hexDigit (n : Nat) : Char :=
  if n < 10 then Char.ofNat (48 + n) else Char.ofNat (87 + n)

def hexOfBytes (bs : Bytes) : String :=
  if bs.isEmpty then "-" else
  String.ofList (bs.flatMap fun b => [hexDigit (b.toNat / 16), hexDigit (b.toNat % 16)])

def hexVal (c : Char) : Option Nat :=
  if '0' ≤ c ∧ c ≤ '9' then some (c.toNat - 48)
  else if 'a' ≤ c ∧ c ≤ 'f' then some (c.toNat - 87)
  else if 'A' ≤ c ∧ c ≤ 'F' then some (c.toNat - 55)
  else none

def bytesOfHexAux : List Char → Bytes → Option Bytes
  | [], acc => some acc.reverse
  | [_], _ => none
  | a :: b :: rest, acc =>
    match hexVal a, hexVal b with
    | some x, some y => bytesOfHexAux rest (UInt8.ofNat (16 * x + y) :: acc)
    | _, _ => none

/-- `"-"` is the empty string; otherwise an even number of hex digits -/
def bytesOfHex (s : String) : Option Bytes :=
  if s = "-" then some [] else bytesOfHexAux s.toList []

/-- FNV-1a 64 -/
def fnv1a (bs : Bytes) : Nat :=
  bs.foldl (fun h b => ((h ^^^ b.toNat) * 1099511628211) % W64) 14695981039346656037

/-- canonical rendering of a (possibly long) byte string: short ones in hex, long ones as length + hash -/
def showBytes (bs : Bytes) : String :=
  if bs.length ≤ 48 then hexOfBytes bs else s!"#{bs.length}:{fnv1a bs}"

end Op2
