import Op2Model.Basic
import Op2Model.Str
import Op2Model.Path
/-!
# Op2Model.Clm — CLM archives of WAV tracks (C03, C05 part clm, C20 part clm)

Mirrors `src/Archive/ClmFile.cpp`, `WaveFile.cpp` and the `ArchiveFile` helpers as they are after the two repairs
made for this family (D8: `WriteArchive` copies exactly the data chunk; D9: `FindChunk` keeps its cursor in 64 bits).

* `Content` — a file as explicit bytes followed by `z` zero bytes, so that a 4 GiB track is a number (C20).
* `Wave.walk W` — the chunk walk of `FindChunk` with its cursor reduced modulo `W` exactly where the C++ stores it,
  on explicit fuel.  The library is `W = 2^64`; `W = 2^32` is the pinned code (kept for the D9 counterexample).
* `Wave.intake` — one iteration of `ReadAllWaveHeaders`.
* `Clm.create` — `CreateArchive` (sort, intake, `CompareWaveFormats`, name checks, `PrepareIndex`, `WriteArchive`).
* `Clm.open`, `View.name/size/stream/extractWav/index/contains` — the reader; `wavHeader` is `WaveHeader::Create`.
* `Clm.Spec` — independent description of the CLM layout (frozen; written from the format, not from `create`).
-/
namespace Op2

/-- file content: explicit bytes followed by `z` zero bytes (sparse tail) -/
structure Content where
  b : Bytes
  z : Nat := 0
  deriving Repr

namespace Content
def len (c : Content) : Nat := c.b.length + c.z
/-- the bytes the file really holds -/
def toBytes (c : Content) : Bytes := c.b ++ zeros c.z
/-- the `n` bytes at `pos` (`Reader::Read` after `Seek(pos)`; the caller has checked `pos + n ≤ len`);
    never materialises more than `n` zeros -/
def read (c : Content) (pos n : Nat) : Bytes :=
  ((c.b.drop pos) ++ zeros (min n (c.z - (pos - c.b.length)))).take n
/-- the extent `[pos, pos+n)` as a content (the caller has checked `pos + n ≤ len`) -/
def slice (c : Content) (pos n : Nat) : Content :=
  let h := (c.b.drop pos).take n
  ⟨h, n - h.length⟩
end Content

/-- outcome of a library call that contains a loop whose progress depends on file data -/
inductive Res (α : Type) where
  | ok (a : α)
  | err          -- std::exception
  | hang         -- the loop did not finish within the fuel (for the library: never, see `C05_walk_terminates`)
  deriving Repr

namespace Wave

def tagRIFF : Bytes := [0x52, 0x49, 0x46, 0x46]
def tagWAVE : Bytes := [0x57, 0x41, 0x56, 0x45]
def tagFmt  : Bytes := [0x66, 0x6d, 0x74, 0x20]
def tagData : Bytes := [0x64, 0x61, 0x74, 0x61]

def riffHeaderSize : Nat := 12
def chunkHeaderSize : Nat := 8
def formatSize : Nat := 18

inductive Found where
  | at (len pos : Nat)    -- chunk length field, position of the first byte after the chunk header
  | none                  -- exception (short read, or ran past the end without finding the tag)
  | fuelOut
  deriving Repr, DecidableEq

/-- the do-while loop of `ClmFile::FindChunk`; `W` is the modulus of `currentPosition`'s type.
    Each round: read an 8-byte chunk header at `pos` (exception when fewer than 8 bytes are left); return on the
    wanted tag; otherwise `currentPosition += header.length + sizeof(ChunkHeader)` (computed in 64 bits, stored in
    the cursor's width), seek, and go round again while `currentPosition < fileSize`. -/
def walk (W : Nat) (c : Content) (tag : Bytes) : Nat → Nat → Found
  | 0, _ => .fuelOut
  | fuel + 1, pos =>
    if pos + chunkHeaderSize ≤ c.len then
      let h := c.read pos chunkHeaderSize
      if h.take 4 = tag then .at (decU32 (h.drop 4)) (pos + chunkHeaderSize)
      else
        let pos' := (pos + (decU32 (h.drop 4) + chunkHeaderSize)) % W
        if pos' < c.len then walk W c tag fuel pos' else .none
    else .none

/-- fuel that always suffices for the 64-bit cursor: every round but the last moves forward by at least 8 -/
def fuelFor (c : Content) : Nat := c.len / 8 + 1

/-- width of `currentPosition` in the library (after the D9 repair) -/
def cursorW : Nat := W64

/-- `ClmFile::FindChunk` -/
def find (c : Content) (tag : Bytes) : Found :=
  if c.len < riffHeaderSize + chunkHeaderSize then .none
  else walk cursorW c tag (fuelFor c) riffHeaderSize

/-- what `ReadAllWaveHeaders` records about one file: the 18 format bytes with `cbSize` cleared, where the audio
    data starts, and the length the `data` chunk header claims -/
structure Info where
  fmt : Bytes
  dataPos : Nat
  dataLen : Nat
  deriving Repr, DecidableEq

/-- the RIFF header test of `ReadAllWaveHeaders`: 12 bytes can be read, tags `RIFF` / `WAVE`, and
    `header.chunkSize + 8 == Length()` with the sum formed in 32 bits -/
def headerOk (c : Content) : Bool :=
  decide (riffHeaderSize ≤ c.len) &&
  ((c.read 0 riffHeaderSize).take 4 == tagRIFF) && ((c.read 0 riffHeaderSize).drop 8 == tagWAVE) &&
  (u32 (decU32 ((c.read 0 riffHeaderSize).drop 4) + 8) == c.len)

/-- `Read(waveFormats[i])` at `p` followed by `cbSize = 0` -/
def readFormat (c : Content) (p : Nat) : Option Bytes :=
  if p + formatSize ≤ c.len then some ((c.read p formatSize).take 16 ++ [0, 0]) else none

/-- the two chunk searches of one `ReadAllWaveHeaders` iteration -/
def intakeBody (c : Content) : Res Info :=
  match find c tagFmt with
  | .fuelOut => .hang
  | .none => .err
  | .at _ p =>
    match readFormat c p with
    | none => .err
    | some fmt =>
      match find c tagData with
      | .fuelOut => .hang
      | .none => .err
      | .at dl dp => .ok ⟨fmt, dp, dl⟩

/-- one iteration of `ClmFile::ReadAllWaveHeaders` -/
def intake (c : Content) : Res Info := if headerOk c then intakeBody c else .err

/-- the loop of `ReadAllWaveHeaders`: files in order, first failure ends it -/
def intakeAll : List Content → Res (List Info)
  | [] => .ok []
  | c :: cs =>
    match intake c with
    | .hang => .hang
    | .err => .err
    | .ok i =>
      match intakeAll cs with
      | .hang => .hang
      | .err => .err
      | .ok is => .ok (i :: is)

/-! ### the sources the property quantifies over (frozen description of a RIFF/WAVE file) -/

/-- a RIFF chunk: 4-byte tag, u32 length, body (no padding is inserted: the property speaks of even-sized chunks) -/
structure Chunk where
  tag : Bytes
  body : Bytes
  deriving Repr

def Chunk.enc (k : Chunk) : Bytes := k.tag ++ encU32 k.body.length ++ k.body
def encChunks (ks : List Chunk) : Bytes := ks.flatMap Chunk.enc

/-- `RIFF size WAVE [pre]* 'fmt ' [mid]* 'data' tail`: the 16 format bytes, whatever else the `fmt ` chunk carries
    (`cbSize`, extension), other chunks before and between, and anything at all after the audio data -/
structure Desc where
  pre : List Chunk
  fmt16 : Bytes
  fmtExtra : Bytes
  mid : List Chunk
  data : Bytes
  tail : Bytes
  deriving Repr

def Desc.fmtChunk (d : Desc) : Chunk := ⟨tagFmt, d.fmt16 ++ d.fmtExtra⟩
def Desc.dataChunk (d : Desc) : Chunk := ⟨tagData, d.data⟩
def Desc.body (d : Desc) : Bytes :=
  encChunks d.pre ++ (d.fmtChunk.enc ++ (encChunks d.mid ++ (d.dataChunk.enc ++ d.tail)))
def Desc.enc (d : Desc) : Bytes := tagRIFF ++ encU32 (4 + d.body.length) ++ tagWAVE ++ d.body

/-- other chunks are not called `fmt ` (before the format) or `data` (before the audio data); every length fits
    its field -/
def Desc.Valid (d : Desc) : Prop :=
  d.fmt16.length = 16 ∧
  (∀ k ∈ d.pre, k.tag.length = 4 ∧ k.tag ≠ tagFmt ∧ k.tag ≠ tagData) ∧
  (∀ k ∈ d.mid, k.tag.length = 4 ∧ k.tag ≠ tagData) ∧
  d.enc.length < W32

end Wave

namespace Clm
open Wave

/-- `standardFileVersion` -/
def version : Bytes :=
  [79, 80, 50, 32, 67, 108, 117, 109, 112, 32, 70, 105, 108, 101, 32, 86, 101, 114, 115, 105, 111, 110, 32, 49, 46, 48,
   26, 0, 0, 0, 0, 0]
/-- `standardUnknown` -/
def unknown : Bytes := [0, 0, 0, 0, 1, 0]
/-- `PrepareWaveFormat` on an empty list: PCM, mono, 22 050 Hz, 44 100 B/s, block 2, 16 bit, cbSize 0 -/
def defaultFmt : Bytes := encU16 1 ++ encU16 1 ++ encU32 22050 ++ encU32 44100 ++ encU16 2 ++ encU16 16 ++ encU16 0

def headerSize : Nat := 60
def entrySize : Nat := 16
def nameMax : Nat := 8
/-- `UINT32_MAX` in `PrepareIndex` -/
def offsetLimit : Nat := 4294967295

/-- the written archive: header and index, then one data extent per member -/
structure Archive where
  head : Bytes
  datas : List Content
  deriving Repr

def Archive.toBytes (a : Archive) : Bytes := a.head ++ a.datas.flatMap Content.toBytes
def Archive.len (a : Archive) : Nat := a.head.length + (a.datas.map Content.len).sum

/-- `GetNamesFromPaths` then `StripFilenameExtensions` -/
def nameOf (path : Bytes) : Bytes := Path.changeFileExtension (Path.getFilename path) []

/-- `strncpy(entry.filename, name, 8)` into a zeroed field -/
def padName (n : Bytes) : Bytes :=
  let s := (n.takeWhile (· ≠ 0)).take 8
  s ++ zeros (8 - s.length)

def entryBytes (name : Bytes) (off len : Nat) : Bytes := padName name ++ encU32 off ++ encU32 len

/-- `PrepareIndex`: running 64-bit offset, each entry refused when `offset + dataLength > UINT32_MAX` -/
def prepareIndex : Nat → List (Bytes × Nat) → Option Bytes
  | _, [] => some []
  | off, (name, len) :: rest =>
    if off + len > offsetLimit then none
    else (prepareIndex (off + len) rest).map (entryBytes name off len ++ ·)

/-- `CompareWaveFormats`: every format equals the first -/
def allSameFmt : List Info → Bool
  | [] => true
  | i :: rest => rest.all (fun j => j.fmt == i.fmt)

/-- the copy loop of `WriteArchive` (after the D8 repair): a slice of exactly `dataLength` bytes at the data position,
    refused when the file is shorter than its `data` chunk claims -/
def slices : List (Content × Info) → Option (List Content)
  | [] => some []
  | (c, i) :: rest =>
    if i.dataPos + i.dataLen ≤ c.len then (slices rest).map (c.slice i.dataPos i.dataLen :: ·) else none

/-- `ClmFile::CreateArchive` on `(path, content)` pairs -/
def create (files : List (Bytes × Content)) : Res Archive :=
  let sorted := Str.sortCI (fun f => Path.getFilename f.1) files
  match intakeAll (sorted.map (·.2)) with
  | .hang => .hang
  | .err => .err
  | .ok infos =>
    if !allSameFmt infos then .err else
    let names := sorted.map (fun f => nameOf f.1)
    if names.any (fun n => decide (n.length > nameMax)) then .err else
    if Str.hasAdjacentDup names then .err else
    let n := names.length
    let fmt := match infos with | [] => defaultFmt | i :: _ => i.fmt
    let hdr := version ++ fmt ++ unknown ++ encU32 n
    match prepareIndex (headerSize + n * entrySize) (names.zip (infos.map (·.dataLen))) with
    | none => .err
    | some idx =>
      match slices ((sorted.map (·.2)).zip infos) with
      | none => .err
      | some ds => .ok ⟨hdr ++ idx, ds⟩

/-! ## the reader -/

structure Entry where
  name8 : Bytes
  off : Nat
  len : Nat
  deriving Repr, DecidableEq

structure View where
  fmt : Bytes
  entries : List Entry
  deriving Repr, DecidableEq

def parseEntries : Nat → Bytes → List Entry
  | 0, _ => []
  | n + 1, b => ⟨b.take 8, decU32 (b.drop 8), decU32 (b.drop 12)⟩ :: parseEntries n (b.drop 16)

/-- allocation size above which the instrumented run reports `err:alloc` (harness cap, DESIGN §5.1) -/
def allocCap : Nat := 1073741824

/-- `ClmFile::ClmFile` / `ReadHeader` -/
def «open» (b : Bytes) : Except Err View :=
  if b.length < headerSize then .error .bounds else
  if b.take 32 ≠ version then .error .format else
  if (b.drop 50).take 6 ≠ unknown then .error .format else
  let n := decU32 (b.drop 56)
  if n * entrySize > allocCap then .error .alloc else
  if headerSize + n * entrySize > b.length then .error .bounds else
  .ok ⟨(b.drop 32).take 18, parseEntries n (b.drop headerSize)⟩

def entryName (e : Entry) : Bytes := e.name8.takeWhile (· ≠ 0)

/-- `FileReader::Slice(offset, length)` and reading it to the end -/
def extent (file : Bytes) (off len : Nat) : Except Err Bytes :=
  if off + len ≤ file.length then .ok ((file.drop off).take len) else .error .bounds

/-- `WaveHeader::Create` (46 bytes; `chunkSize` is stored in 32 bits) -/
def wavHeader (fmt : Bytes) (len : Nat) : Bytes :=
  tagRIFF ++ encU32 (4 + 26 + 8 + len) ++ tagWAVE ++ tagFmt ++ encU32 18 ++ (fmt.take 16 ++ [0, 0]) ++ tagData ++ encU32 len

namespace View
def count (v : View) : Nat := v.entries.length
def entry (v : View) (i : Nat) : Except Err Entry :=
  match v.entries[i]? with
  | some e => .ok e
  | none => .error .bounds                       -- VerifyIndexInBounds
def name (v : View) (i : Nat) : Except Err Bytes := (v.entry i).map entryName
def size (v : View) (i : Nat) : Except Err Nat := (v.entry i).map (·.len)
def stream (v : View) (file : Bytes) (i : Nat) : Except Err Bytes := do
  let e ← v.entry i
  extent file e.off e.len
def extractWav (v : View) (file : Bytes) (i : Nat) : Except Err Bytes := do
  let e ← v.entry i
  let d ← extent file e.off e.len
  pure (wavHeader v.fmt e.len ++ d)
/-- `ArchiveFile::GetIndex`: first member whose name equals `n` as a path -/
def index (v : View) (n : Bytes) : Except Err Nat :=
  match v.entries.findIdx? (fun e => Path.pathsAreEqual (entryName e) n) with
  | some i => .ok i
  | none => .error .refused
def contains (v : View) (n : Bytes) : Bool := v.entries.any (fun e => Path.pathsAreEqual (entryName e) n)
end View

/-! ## independent description of the CLM layout (frozen) -/
namespace Spec

/-- "OP2 Clump File Version 1.0": 26 characters of text; then Ctrl-Z and NUL padding to 32 -/
def versionChars : List Char :=
  ['O', 'P', '2', ' ', 'C', 'l', 'u', 'm', 'p', ' ', 'F', 'i', 'l', 'e', ' ', 'V', 'e', 'r', 's', 'i', 'o', 'n', ' ', '1', '.', '0']
def versionText : Bytes := versionChars.map (fun c => UInt8.ofNat c.toNat) ++ [0x1A] ++ zeros 5
def unknownBytes : Bytes := [0, 0, 0, 0, 1, 0]

def field32 (b : Bytes) (pos : Nat) : Nat := decU32 (b.drop pos)

/-- where each member starts when the first starts at `o` and they follow one another without gaps -/
def offsetsFrom : Nat → List Nat → List Nat
  | _, [] => []
  | o, l :: ls => o :: offsetsFrom (o + l) ls

def count (b : Bytes) : Nat := field32 b 56
def lens (b : Bytes) : List Nat := (List.range (count b)).map (fun i => field32 b (60 + 16 * i + 12))
def offs (b : Bytes) : List Nat := (List.range (count b)).map (fun i => field32 b (60 + 16 * i + 8))

/-- a well-formed clump file: 32-byte version text, 18-byte wave format, 6 fixed bytes, member count; one 16-byte
    index entry per member (8-byte name, u32 offset, u32 length); the first member's data starts right after the
    index, every next one where the previous ends, and the file ends with the last member's data -/
def WF (b : Bytes) : Prop :=
  60 ≤ b.length ∧ b.take 32 = versionText ∧ (b.drop 50).take 6 = unknownBytes ∧
  60 + 16 * count b ≤ b.length ∧
  offs b = offsetsFrom (60 + 16 * count b) (lens b) ∧
  60 + 16 * count b + (lens b).sum = b.length

instance (b : Bytes) : Decidable (WF b) := by unfold WF; exact inferInstance

/-- a self-consistent extracted track: `RIFF size WAVE`, an 18-byte `fmt ` chunk carrying the 16 format bytes and
    `cbSize = 0`, a `data` chunk whose length is the payload's, the payload, and nothing else; `size + 8` is the file length -/
def SelfConsistentWav (w fmt16 payload : Bytes) : Prop :=
  w.take 4 = Wave.tagRIFF ∧ decU32 (w.drop 4) + 8 = w.length ∧ (w.drop 8).take 4 = Wave.tagWAVE ∧
  (w.drop 12).take 4 = Wave.tagFmt ∧ decU32 (w.drop 16) = 18 ∧ (w.drop 20).take 16 = fmt16 ∧ decU16 (w.drop 36) = 0 ∧
  (w.drop 38).take 4 = Wave.tagData ∧ decU32 (w.drop 42) = payload.length ∧ w.drop 46 = payload

/-- reference encoder: a format and `(name, data)` members in archive order -/
def encode (fmt : Bytes) (members : List (Bytes × Bytes)) : Bytes :=
  let n := members.length
  let start := 60 + 16 * n
  let offsets := offsetsFrom start (members.map (·.2.length))
  let index := (members.zip offsets).flatMap fun (m, o) => (m.1 ++ zeros (8 - m.1.length)) ++ encU32 o ++ encU32 m.2.length
  versionText ++ fmt ++ unknownBytes ++ encU32 n ++ index ++ members.flatMap (·.2)

end Spec
end Clm
end Op2
