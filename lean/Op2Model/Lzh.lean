import Op2Model.HuffArr
import Op2Model.Gen.Constants
/-!
# Op2Model.Lzh — the LZSS + adaptive-Huffman decompressor `HuffLZ` and its bit reader (C04)

* `bitAt / readBit / read8`    — the bit stream as a function of the data: MSB first, zero past the end, the cursor
                                  stops at the end for single bits and runs past it by at most 7 for `read8`.
* `CBits`                       — `BitStreamReader` as written (one-byte shift register `m_ReadBuff`); proved equal to the above.
* `St`, `decompressCode`, `fill`, `getData`, `getInternal` — `HuffLZ` as written: 4 KiB circular window doubling as the
                                  output queue, write / read indices, sticky end-of-stream flag.
* `Spec.decode`                 — the reference decoder: textbook LZSS over the *unbounded output history* (4096 leading
                                  spaces), no window, no queue, no drain interface.
* `Spec.encode`                 — an encoder for token lists (literal | match), used for generation and the round-trip law.
Every buffer store is a bounds-checked `setIfInBounds`, every tree query the bounds-checked `TA.child / isLeaf / nodeData`.
-/
namespace Op2.Lzh
open Op2 Op2.Huff

def N : Nat := 4096
def symbolCount : Nat := 314
def matchBase : Nat := 253
/-- `const int maxFill = 4096 - (314 - 253) - 1` — a tuning constant: the model takes the value regenerated from the
    source on every run; the theorems need only `0 < maxFill` and `maxFill + 60 < 4096` (`C04_gen_maxFill_safe`) -/
def maxFill : Nat := Op2.Gen.Constants.huff_maxFill
def fillByte : UInt8 := 32

/-! ## the bit stream -/

def bitSize (data : Array UInt8) : Nat := 8 * data.size

/-- bit `p` of the stream, most significant bit of each byte first; 0 past the end -/
def bitAt (data : Array UInt8) (p : Nat) : Nat := ((data.getD (p / 8) 0).toNat >>> (7 - p % 8)) % 2

/-- `ReadNextBit`: past the end it returns 0 and the cursor stays -/
def readBit (data : Array UInt8) (p : Nat) : Nat × Nat :=
  if p ≥ bitSize data then (0, p) else (bitAt data p, p + 1)

/-- the eight bits from `p`, first one most significant -/
def bits8 (data : Array UInt8) (p : Nat) : Nat :=
  bitAt data p * 128 + bitAt data (p + 1) * 64 + bitAt data (p + 2) * 32 + bitAt data (p + 3) * 16 +
  bitAt data (p + 4) * 8 + bitAt data (p + 5) * 4 + bitAt data (p + 6) * 2 + bitAt data (p + 7)

/-- `ReadNext8Bits`: past the end 0 and the cursor stays; otherwise eight bits (zero padded) and the cursor moves by 8 -/
def read8 (data : Array UInt8) (p : Nat) : Nat × Nat :=
  if p ≥ bitSize data then (0, p) else (bits8 data p, p + 8)

def endOfStream (data : Array UInt8) (p : Nat) : Bool := p ≥ bitSize data

/-- `BitStreamReader` as written: `m_ReadBitIndex` and the shift register `m_ReadBuff` (an `unsigned char`) -/
structure CBits where
  pos : Nat
  buf : Nat
  deriving Repr, DecidableEq

namespace CBits
def readBit (data : Array UInt8) (c : CBits) : Nat × CBits :=
  if c.pos ≥ bitSize data then (0, c) else
    let buf := if c.pos % 8 = 0 then (data.getD (c.pos / 8) 0).toNat else c.buf
    (if buf / 128 % 2 = 1 then 1 else 0, { pos := c.pos + 1, buf := (buf * 2) % 256 })

def read8 (data : Array UInt8) (c : CBits) : Nat × CBits :=
  if c.pos ≥ bitSize data then (0, c) else
    let i := c.pos % 8
    if i = 0 then ((data.getD (c.pos / 8) 0).toNat, { c with pos := c.pos + 8 })
    else
      let value := c.buf
      let pos := c.pos + 8
      let nb := if pos ≥ bitSize data then 0 else (data.getD (pos / 8) 0).toNat
      (value ||| (nb >>> (8 - i)), { pos := pos, buf := (nb <<< i) % 256 })
end CBits

/-! ## offsets -/

/-- `GetOffsetModifiers`: (extra bit count, upper six bits) from the first eight bits of an offset code -/
def offsetMods (o : Nat) : Nat × Nat :=
  if o < 32 then (1, 0)
  else if o < 80 then (2, (o - 32) / 16 + 1)
  else if o < 144 then (3, (o - 80) / 8 + 4)
  else if o < 192 then (4, (o - 144) / 4 + 12)
  else if o < 240 then (5, (o - 192) / 2 + 24)
  else (6, o - 192)

/-- `offset = (offset << 1) + ReadNextBit()`, `count` times -/
def readExtra (data : Array UInt8) : Nat → Nat → Nat → Nat × Nat
  | 0, acc, p => (acc, p)
  | k + 1, acc, p => let (b, p') := readBit data p; readExtra data k (acc * 2 + b) p'

/-- `GetRepeatOffset`: a 12-bit offset `0..4095` -/
def repeatOffset (data : Array UInt8) (p : Nat) : Nat × Nat :=
  let (o, p1) := read8 data p
  let (eb, up) := offsetMods o
  let (o2, p2) := readExtra data eb o p1
  (up * 64 + o2 % 64, p2)

/-! ## one code -/

/-- `GetNextCode`: walk from the root along the bit stream to a leaf; fuel = node count (the walk strictly descends) -/
def nextCode (t : TA) (data : Array UInt8) : Nat → Nat → Nat → Except Err (Nat × Nat)
  | 0, _, _ => .error .format
  | fuel + 1, node, p =>
    match t.isLeaf node with
    | .error e => .error e
    | .ok true => match t.nodeData node with
      | .ok d => .ok (d, p)
      | .error e => .error e
    | .ok false =>
      let (b, p') := readBit data p
      match t.child node b with
      | .ok c => nextCode t data fuel c p'
      | .error e => .error e

/-- what one code says, before it touches any output: the tree walk along the bit stream, the tree update, and for a
    repeat block its offset.  Shared by the implementation model and the reference decoder (it involves only the bit
    stream and the tree). -/
inductive Sym where
  | badQuery                                      -- a tree query was refused (never happens on a well-formed tree)
  | full (p1 : Nat)                               -- the tree refused the update: its counters are full
  | lit (t' : TA) (p1 : Nat) (c : Nat)            -- a literal byte
  | mat (t' : TA) (p2 : Nat) (off len : Nat)      -- `len` bytes from distance `off + 1`

def decodeSym (data : Array UInt8) (t : TA) (p : Nat) : Sym :=
  match nextCode t data t.n t.root p with
  | .error _ => .badQuery
  | .ok (code, p1) =>
    match t.updateChecked code with
    | .error _ => .full p1
    | .ok t' =>
      if code < 256 then .lit t' p1 code
      else .mat t' (repeatOffset data p1).2 (repeatOffset data p1).1 (code - matchBase)

/-! ## the decompressor object -/

structure St where
  data : Array UInt8
  pos : Nat
  tree : TA
  buf : Array UInt8
  w : Nat
  r : Nat
  eos : Bool

def St.init (data : Array UInt8) : St :=
  { data := data, pos := 0, tree := TA.init symbolCount, buf := Array.replicate N fillByte, w := 0, r := 0, eos := false }

/-- `WriteCharToBuffer` -/
def put (buf : Array UInt8) (w : Nat) (c : UInt8) : Array UInt8 × Nat := (buf.setIfInBounds w c, (w + 1) % N)

/-- the copy loop of a repeat block: `for (…; code; code--, start = (start + 1) & 0xFFF) WriteCharToBuffer(buf[start])` -/
def copyMatch (buf : Array UInt8) (w start : Nat) : Nat → Array UInt8 × Nat
  | 0 => (buf, w)
  | len + 1 =>
    let (buf', w') := put buf w (buf.getD start 0)
    copyMatch buf' w' ((start + 1) % N) len

inductive Res where
  | more      -- a code was decoded, the stream goes on
  | eos       -- a code was decoded and the bit cursor is at or past the end
  | err       -- the tree refused the update (capacity) or a query
  deriving DecidableEq, Repr

/-- `DecompressCode`.  On a refused update the bit cursor has already moved, nothing is written, the tree is unchanged. -/
def decompressCode (st : St) : St × Res :=
  match decodeSym st.data st.tree st.pos with
  | .badQuery => (st, .err)
  | .full p1 => ({ st with pos := p1 }, .err)
  | .lit t' p1 c =>
    ({ st with pos := p1, tree := t', buf := (put st.buf st.w (UInt8.ofNat c)).1, w := (put st.buf st.w (UInt8.ofNat c)).2 },
     if endOfStream st.data p1 then .eos else .more)
  | .mat t' p2 off len =>
    -- `start = (m_BuffWriteIndex - offset - 1) & 0x0FFF`
    ({ st with pos := p2, tree := t', buf := (copyMatch st.buf st.w ((st.w + N - off - 1) % N) len).1,
               w := (copyMatch st.buf st.w ((st.w + N - off - 1) % N) len).2 },
     if endOfStream st.data p2 then .eos else .more)

/-- bytes waiting in the window: `(m_BuffWriteIndex - m_BuffReadIndex) & 0x0FFF` -/
def St.unread (st : St) : Nat := (st.w + N - st.r) % N

/-- the loop of `FillDecompressBuffer`; returns `true` when a code ended in an error (exception) -/
def fillLoop : Nat → St → St × Bool
  | 0, st => (st, false)
  | fuel + 1, st =>
    if st.unread < maxFill then
      match decompressCode st with
      | (st', .err) => (st', true)
      | (st', .eos) => ({ st' with eos := true }, false)
      | (st', .more) => fillLoop fuel st'
    else (st, false)

/-- `FillDecompressBuffer` (every code adds at least one byte, so `maxFill + 1` rounds are enough) -/
def fill (st : St) : St × Bool := if st.eos then (st, false) else fillLoop (maxFill + 1) st

/-- bytes at circular positions `start, start+1, …` -/
def seg (buf : Array UInt8) (start k : Nat) : List UInt8 := (List.range k).map (fun i => buf.getD ((start + i) % N) 0)

/-- `CopyAvailableData`, with the `size_t` subtraction `m_BuffWriteIndex - m_BuffReadIndex` as written -/
def copyAvailable (st : St) (size : Nat) : List UInt8 × St :=
  if st.w = st.r then ([], st) else
    let (b1, r1, size1) :=
      if st.w < st.r then
        let n1 := min (N - st.r) size
        (seg st.buf st.r n1, (st.r + n1) % N, size - n1)
      else ([], st.r, size)
    let n2 := min (u64 (W64 + st.w - r1)) size1
    if n2 > 0 then (b1 ++ seg st.buf r1 n2, { st with r := r1 + n2 })
    else (b1, { st with r := r1 })

/-- the `while (bufferSize && !m_EOS)` loop of `GetData`; every round with the stream still open delivers at least
    one byte, so `size` rounds are enough -/
def getDataLoop : Nat → St → Nat → List UInt8 → Except Err (List UInt8 × St)
  | 0, st, _, acc => .ok (acc, st)
  | fuel + 1, st, size, acc =>
    if size > 0 ∧ ¬ st.eos then
      match fill st with
      | (st1, true) => .error .refused
      | (st1, false) =>
        let (b, st2) := copyAvailable st1 size
        getDataLoop fuel st2 (size - b.length) (acc ++ b)
    else .ok (acc, st)

/-- what a failed call leaves behind (the exception escapes `GetData` / `GetInternalBuffer` from inside `fill`) -/
def afterFailedFill (st : St) : St := (fill st).1

/-- `GetData(buffer, size)`: the bytes delivered, or an error (the state after an error is `getDataErrState`) -/
def getData (st : St) (size : Nat) : Except Err (List UInt8 × St) :=
  match fill st with
  | (_, true) => .error .refused
  | (st1, false) =>
    let (b, st2) := copyAvailable st1 size
    getDataLoop (size - b.length) st2 (size - b.length) b

/-- `GetInternalBuffer`: the contiguous run of waiting bytes up to the wrap-around -/
def getInternal (st : St) : Except Err (List UInt8 × St) :=
  match fill st with
  | (_, true) => .error .refused
  | (st1, false) =>
    let size := if st1.w < st1.r then N - st1.r else st1.w - st1.r
    .ok (seg st1.buf st1.r size, { st1 with r := (st1.r + size) % N })

/-- drain calls -/
inductive Call where
  | data (size : Nat)
  | internal
  deriving Repr, DecidableEq

def call (st : St) : Call → Except Err (List UInt8 × St)
  | .data k => getData st k
  | .internal => getInternal st

/-- a drain schedule; stops at the first error.  Returns the chunks delivered and whether it ended in an error. -/
def drain : St → List Call → List (List UInt8) × Bool
  | _, [] => ([], false)
  | st, c :: cs =>
    match call st c with
    | .error _ => ([], true)
    | .ok (b, st') => let (bs, e) := drain st' cs; (b :: bs, e)

/-! ## the reference decoder -/
namespace Spec

/-- The output history is kept most-recent-first: `hist.getD d ' '` is the byte `d + 1` positions back; before the
    first output byte the history is an unbounded run of spaces (the format says 4096, no distance reaches further). -/
def histAt (hist : List UInt8) (d : Nat) : UInt8 := hist.getD d fillByte

/-- a match of `len` bytes at distance `off + 1`, byte by byte (overlap allowed) -/
def copy (hist : List UInt8) (off : Nat) : Nat → List UInt8
  | 0 => hist
  | len + 1 => copy (histAt hist off :: hist) off len

inductive Status where
  | done        -- the bit cursor reached the end after a code
  | capacity    -- the tree refused an update (its counters are full) or a query
  | fuel        -- (never: see `C04_terminates`)
  deriving DecidableEq, Repr

/-- outcome of decoding one code on the unbounded history -/
inductive SRes where
  | next (t : TA) (p : Nat) (hist : List UInt8)     -- decoded; the stream goes on
  | last (hist : List UInt8)                         -- decoded; the bit cursor is at or past the end
  | cap                                              -- the tree refused the update (or a query)

/-- one code on the unbounded history: emit a literal or copy a match -/
def step (data : Array UInt8) (t : TA) (p : Nat) (hist : List UInt8) : SRes :=
  match decodeSym data t p with
  | .badQuery => .cap
  | .full _ => .cap
  | .lit t' p1 c => if endOfStream data p1 then .last (UInt8.ofNat c :: hist) else .next t' p1 (UInt8.ofNat c :: hist)
  | .mat t' p2 off len => if endOfStream data p2 then .last (copy hist off len) else .next t' p2 (copy hist off len)

/-- decode codes one after the other until the bit cursor is at or past the end after a code (do-while);
    returns the history (most recent first) -/
def run (data : Array UInt8) : Nat → TA → Nat → List UInt8 → List UInt8 × Status
  | 0, _, _, hist => (hist, .fuel)
  | fuel + 1, t, p, hist =>
    match step data t p hist with
    | .cap => (hist, .capacity)
    | .last hist' => (hist', .done)
    | .next t' p' hist' => run data fuel t' p' hist'

/-- number of codes `run` decodes (for the "fewer than eight further codes" clause) -/
def runCodes (data : Array UInt8) : Nat → TA → Nat → Nat → Nat
  | 0, _, _, k => k
  | fuel + 1, t, p, k =>
    match decodeSym data t p with
    | .badQuery => k
    | .full _ => k
    | .lit t' p1 _ => if endOfStream data p1 then k + 1 else runCodes data fuel t' p1 (k + 1)
    | .mat t' p2 _ _ => if endOfStream data p2 then k + 1 else runCodes data fuel t' p2 (k + 1)

def codeCount (data : Array UInt8) : Nat := runCodes data (bitSize data + 2) (TA.init symbolCount) 0 0

/-- the decoded bytes (oldest first) and how decoding ended; every code but the last consumes at least one bit -/
def decode (data : Array UInt8) : List UInt8 × Status :=
  ((run data (bitSize data + 2) (TA.init symbolCount) 0 []).1.reverse, (run data (bitSize data + 2) (TA.init symbolCount) 0 []).2)

/-! ### an encoder (tokens → bytes), MSB-first bit packing, zero padding in the last byte -/

inductive Token where
  | lit (b : Nat)                 -- a byte
  | mat (len dist : Nat)          -- 3 ≤ len ≤ 60, 1 ≤ dist ≤ 4096
  deriving Repr, DecidableEq

/-- `k` bits of `v`, most significant first -/
def bitsOf (k v : Nat) : List Nat := (List.range k).map (fun i => (v >>> (k - 1 - i)) % 2)

/-- the variable-length code of the upper six bits followed by the lower six bits -/
def offsetBits (off : Nat) : List Nat :=
  let up := off / 64
  let lo := off % 64
  let pre :=
    if up = 0 then bitsOf 3 0
    else if up < 4 then bitsOf 4 (up + 1)
    else if up < 12 then bitsOf 5 (up + 6)
    else if up < 24 then bitsOf 6 (up + 24)
    else if up < 48 then bitsOf 7 (up + 72)
    else bitsOf 8 (up + 192)
  pre ++ bitsOf 6 lo

/-- root-to-leaf bits of `code` in the current tree -/
def codeBits (t : TA) (code : Nat) : List Nat := TF.encode t.view code

def encodeBits : TA → List Token → List Nat
  | _, [] => []
  | t, .lit b :: rest =>
    match t.updateChecked b with
    | .ok t' => codeBits t b ++ encodeBits t' rest
    | .error _ => []
  | t, .mat len dist :: rest =>
    match t.updateChecked (len + matchBase) with
    | .ok t' => codeBits t (len + matchBase) ++ offsetBits (dist - 1) ++ encodeBits t' rest
    | .error _ => []

def byteOfBits (bs : List Nat) : UInt8 :=
  UInt8.ofNat ((bs ++ List.replicate (8 - bs.length) 0).foldl (fun a b => a * 2 + b) 0)

def packAux : Nat → List Nat → List UInt8
  | 0, _ => []
  | _ + 1, [] => []
  | fuel + 1, b :: bs => byteOfBits ((b :: bs).take 8) :: packAux fuel ((b :: bs).drop 8)

def packBits (bs : List Nat) : List UInt8 := packAux bs.length bs

def encode (ts : List Token) : List UInt8 := packBits (encodeBits (TA.init symbolCount) ts)

/-- what the tokens stand for (history, most recent first) -/
def expand : List UInt8 → List Token → List UInt8
  | hist, [] => hist
  | hist, .lit b :: rest => expand (UInt8.ofNat b :: hist) rest
  | hist, .mat len dist :: rest => expand (copy hist (dist - 1) len) rest

end Spec
end Op2.Lzh
