import Op2Model.Parser
/-!
# Op2Model.Bmp — indexed BMP (C08, C11): `src/Bitmap/*`

Mirrors `BitmapFile::ReadIndexed / WriteIndexed / Validate / CreateIndexed / InvertScanLines / SwapRedAndBlue`,
`ImageHeader::Validate / Create / CalculatePitch / CalcPixelByteWidth`, `BmpHeader::Create` as they are after the
repairs D15 (full-length palette written), D16 (negative width and height −2^31 refused by `VerifyDimensions`) and
D25 (`WritePixels` no longer indexes an empty vector).

* every C++ operation whose behaviour is undefined for some operand (`std::abs(INT_MIN)`, `height *= -1`, a row
  pointer / iterator range outside the pixel vector, an over-wide shift) goes through a checked primitive that returns
  an explicit `Fault`; results live in `Out α = ok | err (ordinary exception) | fault`;
* `size_t` arithmetic is ℕ reduced mod 2^64 where the C++ can wrap (`int32_t → size_t` conversion of the width);
* the reader is a `Parser` built from `take / bind / pure / fail` only; the one look at the total stream length
  (`bmpHeader.size < reader.Length()`) is the parameter `len`;
* allocations above the harness cap (1 GiB, ASan `max_allocation_size_mb`) are the ordinary error `alloc`.
-/
namespace Op2.Bmp
open Op2

/-! ## outcomes -/

inductive Fault where
  | absIntMin      -- std::abs(INT32_MIN)
  | negIntMin      -- height *= -1 on INT32_MIN
  | oobRead        -- a row pointer / iterator range leaves the pixel vector
  | shiftTooWide   -- size_t(1) << bitCount with bitCount ≥ 64
  deriving DecidableEq, Repr, Inhabited

inductive Out (α : Type) where
  | ok (a : α)
  | err (e : Err)
  | fault (f : Fault)
  deriving Repr

namespace Out
@[inline] def bind {α β : Type} (x : Out α) (f : α → Out β) : Out β :=
  match x with
  | .ok a => f a
  | .err e => .err e
  | .fault g => .fault g
instance : Monad Out where
  pure := Out.ok
  bind := Out.bind
def isFault {α : Type} : Out α → Bool
  | .fault _ => true
  | _ => false
def isOk {α : Type} : Out α → Bool
  | .ok _ => true
  | _ => false
end Out

def I32_MIN : Int := -2147483648
def I32_MAX : Int := 2147483647
def allocCap : Nat := 1073741824

/-- `std::abs(int)` -/
def absI32 (h : Int) : Except Fault Nat := if h = I32_MIN then .error .absIntMin else .ok h.natAbs
/-- `h *= -1` on an `int32_t` -/
def negI32 (h : Int) : Except Fault Int := if h = I32_MIN then .error .negIntMin else .ok (-h)
/-- `int32_t → std::size_t` -/
def toU64 (x : Int) : Nat := (x % (W64 : Int)).toNat
/-- `int32_t → uint32_t` -/
def toU32 (x : Int) : Nat := (x % (W32 : Int)).toNat
/-- bytes `[off, off+n)` of a vector through a raw pointer / iterator pair -/
def slice (v : Bytes) (off n : Nat) : Except Fault Bytes :=
  if off + n ≤ v.length then .ok ((v.drop off).take n) else .error .oobRead

/-! ## records -/

structure Color where
  red : UInt8
  green : UInt8
  blue : UInt8
  alpha : UInt8
  deriving DecidableEq, Repr, Inhabited

namespace Color
/-- memory (= file) layout of `struct Color` -/
def enc (c : Color) : Bytes := [c.red, c.green, c.blue, c.alpha]
def swapRB (c : Color) : Color := { c with red := c.blue, blue := c.red }
def black : Color := ⟨0, 0, 0, 0⟩
def ofBytes (b : Bytes) : Color := ⟨b.getD 0 0, b.getD 1 0, b.getD 2 0, b.getD 3 0⟩
end Color

structure BmpHeader where
  sig : Bytes
  size : Nat
  reserved1 : Nat
  reserved2 : Nat
  pixelOffset : Nat
  deriving DecidableEq, Repr, Inhabited

structure ImageHeader where
  headerSize : Nat
  width : Int
  height : Int
  planes : Nat
  bitCount : Nat
  compression : Nat
  imageSize : Nat
  xRes : Nat
  yRes : Nat
  used : Nat
  important : Nat
  deriving DecidableEq, Repr, Inhabited

structure Bmp where
  bh : BmpHeader
  ih : ImageHeader
  palette : List Color
  pixels : Bytes
  deriving DecidableEq, Repr, Inhabited

def fileSignature : Bytes := [66, 77]
def sizeBmpHeader : Nat := 14
def sizeImageHeader : Nat := 40
def validBitCounts : List Nat := [1, 4, 8, 16, 24, 32]

/-! ## row sizes (`ImageHeader::CalcPixelByteWidth`, `CalculatePitch`) -/

/-- `((width * size_t(bitCount)) + 7) / 8` in `size_t` -/
def pixByteWidth (bits : Nat) (w : Int) : Nat := ((toU64 w * bits) % W64 + 7) % W64 / 8
/-- `(bytesOfPixelsPerRow + 3) & ~3` in `size_t` -/
def pitch (bits : Nat) (w : Int) : Nat := (pixByteWidth bits w + 3) % W64 / 4 * 4
/-- the law in ℕ: the smallest multiple of four bytes that holds `w * bits` bits -/
def pitchN (bits w : Nat) : Nat := 4 * ((w * bits + 31) / 32)

/-- the first `n` rows of `p` bytes of a pixel array, in stored order -/
def storedRows (px : Bytes) (p : Nat) : Nat → List Bytes
  | 0 => []
  | n + 1 => px.take p :: storedRows (px.drop p) p n

/-! ## header validation -/

/-- `ImageHeader::Validate` succeeds (header size, planes, bit count, `VerifyDimensions`, colour counts; the colour
    count checks call `CalcMaxIndexedPaletteSize`, which throws for more than 8 bits) -/
def ImageHeader.Valid (h : ImageHeader) : Prop :=
  h.headerSize = sizeImageHeader ∧ h.planes = 1 ∧ h.bitCount ∈ validBitCounts ∧ 0 ≤ h.width ∧ h.height ≠ I32_MIN ∧
  h.bitCount ≤ 8 ∧ h.used ≤ 2 ^ h.bitCount ∧ h.important ≤ 2 ^ h.bitCount

instance (h : ImageHeader) : Decidable h.Valid := by unfold ImageHeader.Valid; infer_instance

/-- `ImageHeader::Create(width, height, bitCount)` (throws unless the bit count is valid and the dimensions pass) -/
def ImageHeader.create (w h : Int) (bits : Nat) : Except Err ImageHeader :=
  if bits ∈ validBitCounts ∧ 0 ≤ w ∧ h ≠ I32_MIN then
    .ok { headerSize := sizeImageHeader, width := w, height := h, planes := 1, bitCount := bits, compression := 0,
          imageSize := 0, xRes := 0, yRes := 0, used := 0, important := 0 }
  else .error .format

def BmpHeader.create (size off : Nat) : BmpHeader :=
  { sig := fileSignature, size := size, reserved1 := 0, reserved2 := 0, pixelOffset := off }

/-- `VerifyPixelSizeMatchesImageDimensionsWithPitch(bitCount, width, height, n)` -/
def verifyPixelSize (bits : Nat) (w h : Int) (n : Nat) : Out Unit :=
  match absI32 h with
  | .error f => .fault f
  | .ok a => if n = (pitch bits w * a) % W64 then .ok () else .err .format

/-! ## serialisation of the records -/

def encI32 (x : Int) : Bytes := encU32 (toU32 x)
def BmpHeader.enc (b : BmpHeader) : Bytes :=
  b.sig ++ encU32 b.size ++ encU16 b.reserved1 ++ encU16 b.reserved2 ++ encU32 b.pixelOffset
def ImageHeader.enc (h : ImageHeader) : Bytes :=
  encU32 h.headerSize ++ encI32 h.width ++ encI32 h.height ++ encU16 h.planes ++ encU16 h.bitCount ++ encU32 h.compression ++
  encU32 h.imageSize ++ encU32 h.xRes ++ encU32 h.yRes ++ encU32 h.used ++ encU32 h.important
def encPalette (p : List Color) : Bytes := p.flatMap Color.enc

/-! ## reader (`IndexedBmpReader.cpp`) -/

namespace Rd
open Op2.Parser

def i32 : Parser Int := Parser.map Parser.u32 Op2.i32

/-- `ReadBmpHeader`: 14 bytes, signature, `size < Length()` refused -/
def bmpHeader (len : Nat) : Parser BmpHeader :=
  Parser.bind (take 2) fun sig =>
  Parser.bind Parser.u32 fun size =>
  Parser.bind Parser.u16 fun r1 =>
  Parser.bind Parser.u16 fun r2 =>
  Parser.bind Parser.u32 fun off =>
  Parser.bind (guard (decide (sig = fileSignature))) fun _ =>
  Parser.bind (guard (decide (¬ size < len))) fun _ =>
  Parser.pure { sig := sig, size := size, reserved1 := r1, reserved2 := r2, pixelOffset := off }

def imageHeaderRaw : Parser ImageHeader :=
  Parser.bind Parser.u32 fun hs =>
  Parser.bind i32 fun w =>
  Parser.bind i32 fun h =>
  Parser.bind Parser.u16 fun planes =>
  Parser.bind Parser.u16 fun bits =>
  Parser.bind Parser.u32 fun comp =>
  Parser.bind Parser.u32 fun isz =>
  Parser.bind Parser.u32 fun xr =>
  Parser.bind Parser.u32 fun yr =>
  Parser.bind Parser.u32 fun used =>
  Parser.bind Parser.u32 fun imp =>
  Parser.pure { headerSize := hs, width := w, height := h, planes := planes, bitCount := bits, compression := comp,
                imageSize := isz, xRes := xr, yRes := yr, used := used, important := imp }

/-- `ReadImageHeader`: 40 bytes, `Validate`, indexed depth only -/
def imageHeader : Parser ImageHeader :=
  Parser.bind imageHeaderRaw fun h =>
  Parser.bind (guard (decide h.Valid)) fun _ =>
  Parser.bind (guard (decide (h.bitCount ≤ 8))) fun _ =>
  Parser.pure h

def color : Parser Color := Parser.map (take 4) Color.ofBytes

/-- number of palette entries `ReadPalette` reads -/
def paletteCount (h : ImageHeader) : Nat := if h.used ≠ 0 then h.used else 2 ^ h.bitCount

/-- `size - pixelOffset` in `uint32_t` -/
def pixelBytes (b : BmpHeader) : Nat := (W32 + b.size - b.pixelOffset) % W32

def bmp (len : Nat) : Parser (Out Bmp) :=
  Parser.bind (bmpHeader len) fun bh =>
  Parser.bind imageHeader fun ih =>
  Parser.bind (many color (paletteCount ih)) fun pal =>
  match absI32 ih.height with
  | .error f => Parser.pure (.fault f)
  | .ok a =>
    Parser.bind (guard (decide (pixelBytes bh = (pitch ih.bitCount ih.width * a) % W64))) fun _ =>
    Parser.bind (guard (decide (pixelBytes bh ≤ allocCap)) .alloc) fun _ =>
    Parser.bind (take (pixelBytes bh)) fun px =>
    Parser.pure (.ok { bh := bh, ih := ih, palette := pal, pixels := px })
end Rd

/-- outcome of a parser that yields an `Out` -/
def runOut {α : Type} (p : Parser (Out α)) (b : Bytes) : Out α :=
  match p b with
  | .ok (o, _) => o
  | .error e => .err e

/-- `BitmapFile::ReadIndexed` on a stream holding exactly `b`, positioned at its start -/
def read (b : Bytes) : Out Bmp := runOut (Rd.bmp b.length) b

/-- number of bytes `ReadIndexed` consumes when it succeeds -/
def consumed (b : Bytes) : Nat :=
  match Rd.bmp b.length b with
  | .ok (_, rest) => b.length - rest.length
  | .error _ => 0

/-! ## `BitmapFile::Validate` and the other queries -/

def validate (f : Bmp) : Out Unit :=
  if f.bh.sig ≠ fileSignature then .err .format
  else if ¬ f.ih.Valid then .err .format
  else if ¬ (f.ih.bitCount ≤ 8 ∧ f.palette.length ≤ 2 ^ f.ih.bitCount) then .err .format
  else verifyPixelSize f.ih.bitCount f.ih.width f.ih.height f.pixels.length

/-- `VerifyIndexedPaletteSizeDoesNotExceedBitCount()` -/
def verifyPalette (f : Bmp) : Out Unit :=
  if f.ih.bitCount ≤ 8 ∧ f.palette.length ≤ 2 ^ f.ih.bitCount then .ok () else .err .format

def absoluteHeight (f : Bmp) : Out Nat :=
  match absI32 f.ih.height with
  | .error g => .fault g
  | .ok a => .ok a

def isTopDown (f : Bmp) : Bool := decide (f.ih.height < 0)

def swapRedAndBlue (f : Bmp) : Bmp := { f with palette := f.palette.map Color.swapRB }

/-! ## writer (`IndexedBmpWriter.cpp`) -/

/-- `WritePixels`: `n` rows starting at row `y`; each row's meaningful bytes through a raw pointer, then zero padding -/
def writeRows (px : Bytes) (p bpr : Nat) : Nat → Nat → Except Fault Bytes
  | 0, _ => .ok []
  | n + 1, y =>
    match slice px ((y * p) % W64) bpr with
    | .error f => .error f
    | .ok r =>
      match writeRows px p bpr n (y + 1) with
      | .error f => .error f
      | .ok rest => .ok (r ++ zeros (p - bpr) ++ rest)

def fullPalette (bits : Nat) (p : List Color) : List Color := p ++ List.replicate (2 ^ bits - p.length) Color.black

/-- `WriteIndexed(Stream::Writer&)` -/
def write (f : Bmp) : Out Bytes :=
  let bits := f.ih.bitCount
  if ¬ bits ≤ 8 then .err .format
  else if ¬ f.palette.length ≤ 2 ^ bits then .err .format
  else
    match verifyPixelSize bits f.ih.width f.ih.height f.pixels.length with
    | .err e => .err e
    | .fault g => .fault g
    | .ok _ =>
      let pal := fullPalette bits f.palette
      let off := sizeBmpHeader + sizeImageHeader + pal.length * 4
      match absI32 f.ih.height with
      | .error g => .fault g
      | .ok a =>
        let size := (off + (pitch bits f.ih.width * a) % W64) % W64
        if size > W32 - 1 then .err .refused
        else
          match ImageHeader.create f.ih.width f.ih.height bits with
          | .error e => .err e
          | .ok ih =>
            match writeRows f.pixels (pitch bits f.ih.width) (pixByteWidth bits f.ih.width) a 0 with
            | .error g => .fault g
            | .ok rows => .ok ((BmpHeader.create size off).enc ++ ih.enc ++ encPalette pal ++ rows)

/-- `WriteIndexed(std::string filename)`: compression and `Validate()` first -/
def writeFile (f : Bmp) : Out Bytes :=
  if f.ih.compression ≠ 0 then .err .refused
  else
    match validate f with
    | .err e => .err e
    | .fault g => .fault g
    | .ok _ => write f

/-! ## `InvertScanLines` -/

/-- rows `n-1, …, 0` of `p` bytes each, through iterator pairs -/
def invertRows (px : Bytes) (p : Nat) : Nat → Except Fault Bytes
  | 0 => .ok []
  | n + 1 =>
    match slice px (n * p) p with
    | .error f => .error f
    | .ok r =>
      match invertRows px p n with
      | .error f => .error f
      | .ok rest => .ok (r ++ rest)

def invert (f : Bmp) : Out Bmp :=
  match negI32 f.ih.height with
  | .error g => .fault g
  | .ok h' =>
    match absI32 h' with
    | .error g => .fault g
    | .ok a =>
      match invertRows f.pixels (pitch f.ih.bitCount f.ih.width) a with
      | .error g => .fault g
      | .ok px => .ok { f with ih := { f.ih with height := h' }, pixels := px }

/-! ## factories (`BitmapFile::CreateIndexed`) -/

/-- what `CreateIndexed(bitCount, width, height)` allocates: headers, palette entries, pixel bytes -/
structure Shape where
  bh : BmpHeader
  ih : ImageHeader
  npal : Nat
  npix : Nat

/-- `CreateIndexed(bitCount, width, height)` up to the contents of the two vectors; `w` is the `uint32_t` argument -/
def createShape (bits w : Nat) (h : Int) : Out Shape :=
  match ImageHeader.create (Op2.i32 w) h bits with
  | .error e => .err e
  | .ok ih =>
    if ¬ bits ≤ 8 then .err .format
    else
      match absI32 h with
      | .error g => .fault g
      | .ok a =>
        let n := (pitch bits ih.width * a) % W64
        if n > allocCap then .err .alloc
        else
          let off := sizeBmpHeader + sizeImageHeader + 2 ^ bits * 4
          let size := off + n
          if size > W32 - 1 then .err .refused
          else .ok { bh := BmpHeader.create size off, ih := ih, npal := 2 ^ bits, npix := n }

/-- `CreateIndexed(bitCount, width, height)`: black palette, zero pixels -/
def create1 (bits w : Nat) (h : Int) : Out Bmp :=
  match createShape bits w h with
  | .ok s => .ok { bh := s.bh, ih := s.ih, palette := List.replicate s.npal Color.black, pixels := zeros s.npix }
  | .err e => .err e
  | .fault g => .fault g

/-- `CreateIndexed(bitCount, width, height, palette)` -/
def create2 (bits w : Nat) (h : Int) (pal : List Color) : Out Bmp :=
  if 64 ≤ bits then .fault .shiftTooWide
  else if pal.length > 2 ^ bits then .err .refused
  else
    match create1 bits w h with
    | .ok f => .ok { f with palette := pal ++ f.palette.drop pal.length }
    | o => o

/-- `CreateIndexed(bitCount, width, height, palette, pixels)` -/
def create3 (bits w : Nat) (h : Int) (pal : List Color) (px : Bytes) : Out Bmp :=
  match create2 bits w h pal with
  | .ok f =>
    let g := { f with pixels := px }
    match verifyPixelSize g.ih.bitCount g.ih.width g.ih.height px.length with
    | .ok _ => .ok g
    | .err e => .err e
    | .fault x => .fault x
  | o => o

end Op2.Bmp
