import Op2Model.Path
/-!
# Op2Model.Res — archive name lookup (`ArchiveFile::GetIndex / Contains`) and `ResourceManager` (C17)

An archive is seen through what the lookup code sees: its member names in index order and their bytes.  A directory
layout is data: the regular files of the resource directory, its sub-directories, and the loaded archives **in load
order** (all `*.vol`, then all `*.clm`; the order inside a kind is the directory iteration order — a parameter).
The pattern predicate of `GetAllFilenames` is a parameter too (`std::regex` is not modelled).
-/
namespace Op2.Res
open Op2

structure Arch where
  file : Bytes                 -- file name of the archive inside the resource directory
  names : List Bytes           -- member names, index order
  contents : List Bytes        -- member bytes, index order
  deriving Repr

/-- `ArchiveFile::GetIndex`: linear scan with `XFile::PathsAreEqual`; `none` = throws -/
def Arch.index (a : Arch) (n : Bytes) : Option Nat := a.names.findIdx? (fun m => Path.pathsAreEqual m n)
/-- `ArchiveFile::Contains` -/
def Arch.contains (a : Arch) (n : Bytes) : Bool := a.names.any (fun m => Path.pathsAreEqual m n)
def Arch.count (a : Arch) : Nat := a.names.length
/-- `GetName(i)` behind `VerifyIndexInBounds` -/
def Arch.name (a : Arch) (i : Nat) : Except Err Bytes := if h : i < a.names.length then .ok a.names[i] else .error .bounds
/-- `OpenStream(i)` behind `VerifyIndexInBounds` -/
def Arch.stream (a : Arch) (i : Nat) : Except Err Bytes :=
  if i < a.names.length then .ok (a.contents.getD i []) else .error .bounds

structure Layout where
  loose : List (Bytes × Bytes)            -- regular files directly in the resource directory: (name, content)
  dirs : List Bytes                       -- its sub-directories
  sub : List (Bytes × Bytes × Bytes)      -- files one level down: (directory, name, content)
  archives : List Arch                    -- loaded archives in load order
  deriving Repr

/-- what a relative name denotes on the file system below the resource directory (`.` components skipped);
    `none` = nothing there (or something the model does not cover: `..`, deeper nesting, a directory) -/
def Layout.file (L : Layout) (name : Bytes) : Option Bytes :=
  match (Path.elems name).filter (· ≠ [Path.dot]) with
  | [x] => (L.loose.find? (fun f => f.1 = x)).map (·.2)
  | [d, x] => (L.sub.find? (fun f => f.1 = d ∧ f.2.1 = x)).map (·.2.2)
  | _ => none

/-- `ResourceManager::GetResourceStream`: loose file first, then the archives in load order -/
def getStream (L : Layout) (name : Bytes) (access : Bool) : Except Err (Option Bytes) :=
  if Path.hasRootComponent name then .error .refused else
  match L.file name with
  | some b => .ok (some b)
  | none =>
    if !access then .ok none else
    match L.archives.find? (fun a => a.contains name) with
    | none => .ok none
    | some a => match a.index name with
      | some i => .ok (some (a.contents.getD i []))
      | none => .ok none

/-- `FindContainingArchivePath`: the first loaded archive containing the name -/
def containing (L : Layout) (name : Bytes) : Option Bytes :=
  (L.archives.find? (fun a => a.contains name)).map (·.file)

/-- `IsDuplicateFilename` -/
def isDup (cur : List Bytes) (n : Bytes) : Bool := cur.any (fun c => Path.pathsAreEqual (Path.getFilename c) n)

/-- the archive part of `GetAllFilenamesOfType`: members whose extension matches, unless a name already listed equals
    it ignoring case -/
def addOfType (ext : Bytes) : List Bytes → List Bytes → List Bytes
  | cur, [] => cur
  | cur, n :: ns => if Path.extensionMatches n ext && !isDup cur n then addOfType ext (cur ++ [n]) ns else addOfType ext cur ns

/-- `GetAllFilenamesOfType`: loose files whose extension **equals** the argument (`DirFilesWithExtension` compares the
    strings), then archive members -/
def allOfType (L : Layout) (ext : Bytes) (access : Bool) : List Bytes :=
  let looseNames := (L.loose.map (·.1)).filter (fun n => Path.extension n == ext)
  if !access then looseNames else
  L.archives.foldl (fun cur a => addOfType ext cur a.names) looseNames

/-- `GetAllFilenames`: loose files and archive members whose **name** satisfies the pattern (no de-duplication) -/
def allMatching (L : Layout) (pat : Bytes → Bool) (access : Bool) : List Bytes :=
  let looseNames := (L.loose.map (·.1)).filter pat
  if !access then looseNames else looseNames ++ (L.archives.flatMap (fun a => a.names.filter pat))

/-! ### the small pattern language the correspondence run uses: `^`? literal `$`?, `\.` and `[.]` for a dot,
    case-insensitive, searched anywhere (this is `std::regex_search` with `icase` restricted to such patterns) -/

def stripPrefix? (p s : Bytes) : Option Bytes := if s.take p.length == p then some (s.drop p.length) else none

def parseLit : Bytes → Bytes
  | 92 :: c :: r => c :: parseLit r                 -- `\c`
  | 91 :: c :: 93 :: r => c :: parseLit r           -- `[c]`
  | c :: r => c :: parseLit r
  | [] => []

def isInfixCI (lit s : Bytes) : Bool :=
  (List.range (s.length + 1)).any (fun i => Str.toUpper ((s.drop i).take lit.length) == Str.toUpper lit)

def matchPat (pat name : Bytes) : Bool :=
  let (anchS, p1) := match pat with | 94 :: r => (true, r) | r => (false, r)
  let (anchE, p2) := if p1.getLast? = some 36 then (true, p1.dropLast) else (false, p1)
  let lit := parseLit p2
  let up := Str.toUpper
  if anchS && anchE then up name == up lit
  else if anchS then up (name.take lit.length) == up lit
  else if anchE then lit.length ≤ name.length && up (name.drop (name.length - lit.length)) == up lit
  else isInfixCI lit name

end Op2.Res
