import Op2Model.Basic
import Op2Model.Str
import Op2Model.Path
import Op2Model.Stream
/-!
# Op2Model.Vol — VOL archives (C01, C02, C05, C20)

* `Vol.plan` / `Vol.create` — `VolFile::CreateArchive` as written (after the repairs of D7′): sort by the
  case-insensitive comparator on the final path component, adjacent-duplicate check, `PrepareHeader` in 32-bit
  arithmetic (sizes, name offsets, padded table lengths, block offsets with their refusals), the output-versus-input
  `PathsAreEqual` check of `WriteVolume`, then header emission and the chunked copy with zero padding.
  Every refusal is decided in `plan`, before a byte of the destination exists (`createFs`).
* `Vol.openWith` — `ReadVolHeader / ReadTag / ReadStringTable / CountValidEntries` over an explicit file position, raw
  memory operations through checked primitives (`copyInto`, `vecIdx`) that return a `Fault` when their side
  condition fails.  `Cfg.fixed` is the repaired code (D6, D7), `Cfg.pinned` the code as pinned.
* `View` / `Obj` — the opened archive and the calls on it (`name size kind index contains stream extract`).
* `Vol.Spec` — the frozen, independently written description of the format: `refEncode`, `Desc.WF`, `Desc.Strict`,
  `StrictWF`, the executable `strictWF`.
-/
namespace Op2.Vol
open Op2

/-! ## constants -/
def tagVOL  : Bytes := [86, 79, 76, 32]      -- "VOL "
def tagVOLH : Bytes := [118, 111, 108, 104]  -- "volh"
def tagVOLS : Bytes := [118, 111, 108, 115]  -- "vols"
def tagVOLI : Bytes := [118, 111, 108, 105]  -- "voli"
def tagVBLK : Bytes := [86, 66, 76, 75]      -- "VBLK"

def entrySize : Nat := 14
def secSize : Nat := 8
def uncompressed : Nat := 256
def lzh : Nat := 259
def lenMask : Nat := 2147483647
def padFlag : Nat := 2147483648
def invalidName : Nat := 4294967295
def uint32Max : Nat := 4294967295
def int32Max : Nat := 2147483647
def namePad : Nat := 7
def indexPad : Nat := 3
def blockPad : Nat := 11
def firstBlockExtra : Nat := 32
def headerExtra : Nat := 24
def copyChunk : Nat := 131072
/-- allocations of at least this many bytes are reported as `alloc` (the harness caps the allocator at 1 GiB) -/
def allocCap : Nat := 1073741824

/-- `x & ~3` on a 32-bit unsigned operand -/
def mask32 (x : Nat) : Nat := x &&& 4294967292
/-- `x & ~uint64_t(3)` -/
def mask64 (x : Nat) : Nat := x &&& 18446744073709551612

structure Entry where
  nameOff : Nat
  dataOff : Nat
  size : Nat        -- the 32-bit word of `int32_t fileSize`
  comp : Nat
  deriving DecidableEq, Repr, Inhabited

def encEntry (e : Entry) : Bytes := encU32 e.nameOff ++ encU32 e.dataOff ++ encU32 e.size ++ encU16 e.comp
def decEntry (b : Bytes) : Entry :=
  { nameOff := decU32 b, dataOff := decU32 (b.drop 4), size := decU32 (b.drop 8), comp := decU16 (b.drop 12) }

/-- `SectionHeader(tag, length, VolPadding::FourByte)`: the length is stored in a 31-bit field under the padding flag -/
def sec (tag : Bytes) (len : Nat) : Bytes := tag ++ encU32 (padFlag + len % padFlag)

/-! ## creation -/

/-- contents of an input file; `zeros n` stands for a sparse file so that a 4 GiB member is a number -/
inductive Content where
  | bytes (b : Bytes)
  | zeros (n : Nat)
  deriving Repr

def Content.len : Content → Nat
  | .bytes b => b.length
  | .zeros n => n
def Content.toBytes : Content → Bytes
  | .bytes b => b
  | .zeros n => Op2.zeros n

structure InFile where
  path : Bytes
  content : Content
  deriving Repr

/-- `XFile::GetFilename(path)` -/
def nameOf (f : InFile) : Bytes := Path.getFilename f.path

/-- `PrepareHeader`, first loop: size and name-table refusals, sizes and name offsets -/
def prepLoop : List InFile → Nat → Except Err (List Entry × Nat)
  | [], stl => .ok ([], stl)
  | f :: fs, stl =>
    if f.content.len > int32Max then .error .refused
    else if stl + (nameOf f).length + 1 > uint32Max then .error .refused
    else match prepLoop fs (u32 (stl + u32 (nameOf f).length + 1)) with
      | .ok (es, stl') => .ok ({ nameOff := stl, dataOff := 0, size := f.content.len, comp := uncompressed } :: es, stl')
      | .error e => .error e

/-- `PrepareHeader`, second loop: `next = (prev.offset + prev.size + 11) & ~3` in 64 bits, refused beyond 32 bits -/
def offLoop : Nat → Nat → List Entry → Except Err (List Entry)
  | _, _, [] => .ok []
  | po, ps, e :: es =>
    let off := mask64 (u64 (po + ps + blockPad))
    if off > uint32Max then .error .refused
    else match offLoop (u32 off) e.size es with
      | .ok r => .ok ({ e with dataOff := u32 off } :: r)
      | .error x => .error x

def assignOffsets (first : Nat) : List Entry → Except Err (List Entry)
  | [] => .ok []
  | e :: es => match offLoop first e.size es with
      | .ok r => .ok ({ e with dataOff := first } :: r)
      | .error x => .error x

/-- everything `CreateArchive` decides before it opens the destination -/
structure Plan where
  files : List InFile          -- sorted
  names : List Bytes
  stl : Nat                    -- stringTableLength
  itl : Nat                    -- indexTableLength
  paddedS : Nat
  paddedI : Nat
  entries : List Entry
  deriving Repr

def plan (out : Bytes) (files : List InFile) : Except Err Plan :=
  let sorted := Str.sortCI nameOf files
  let names := sorted.map nameOf
  if Str.hasAdjacentDup names then .error .refused else
  match prepLoop sorted 0 with
  | .error e => .error e
  | .ok (es, stl) =>
    if sorted.length * entrySize > uint32Max then .error .refused else
    let itl := u32 (u32 sorted.length * entrySize)
    let paddedS := mask32 (u32 (stl + namePad))
    let paddedI := mask32 (u32 (itl + indexPad))
    match assignOffsets (u32 (paddedS + paddedI + firstBlockExtra)) es with
    | .error e => .error e
    | .ok es =>
      -- WriteVolume: the output must not be one of the inputs; FileWriter refuses an empty name
      if sorted.any (fun f => Path.pathsAreEqual out f.path) then .error .refused
      else if out.isEmpty then .error .refused
      else .ok { files := sorted, names := names, stl := stl, itl := itl, paddedS := paddedS, paddedI := paddedI, entries := es }

/-- `Writer::Write(Reader&)`: the chunked copy of C14 -/
def copyAll (c : Content) : Bytes :=
  (Stream.copyLoop copyChunk (c.len + 1) { data := c.toBytes, pos := 0 } []).2

def writeHeader (p : Plan) : Bytes :=
  sec tagVOL (u32 (p.paddedS + p.paddedI + headerExtra)) ++ sec tagVOLH 0 ++ sec tagVOLS p.paddedS
  ++ encU32 p.stl ++ p.names.flatMap (fun n => n ++ [0])
  ++ zeros (u32 (W32 + p.paddedS - u32 (p.stl + 4)))
  ++ sec tagVOLI p.itl ++ p.entries.flatMap encEntry
  ++ zeros (u32 (W32 + p.paddedI - p.itl))

def writeBlock (f : InFile) (e : Entry) : Bytes :=
  sec tagVBLK e.size ++ copyAll f.content ++ zeros ((4 - e.size % 4) % 4)

def writeFiles : List InFile → List Entry → Bytes
  | f :: fs, e :: es => writeBlock f e ++ writeFiles fs es
  | _, _ => []

def emit (p : Plan) : Bytes := writeHeader p ++ writeFiles p.files p.entries

/-- `VolFile::CreateArchive(out, files)`: the bytes of the new archive, or a refusal -/
def create (out : Bytes) (files : List InFile) : Except Err Bytes :=
  match plan out files with
  | .ok p => .ok (emit p)
  | .error e => .error e

/-- length of the archive without materialising it (C20 driver) -/
def planLength (p : Plan) : Nat :=
  (writeHeader p).length + (p.entries.map (fun e => 8 + e.size + (4 - e.size % 4) % 4)).sum

/-- a file system as far as `CreateArchive` is concerned: spelled path ↦ content -/
abbrev Fs := List (Bytes × Bytes)
def Fs.write (fs : Fs) (p : Bytes) (b : Bytes) : Fs := (p, b) :: fs.filter (fun e => e.1 ≠ p)

/-- the effect on the file system: nothing at all when refused, one file written otherwise -/
def createFs (out : Bytes) (files : List InFile) (fs : Fs) : Fs × Except Err Unit :=
  match create out files with
  | .ok b => (fs.write out b, .ok ())
  | .error e => (fs, .error e)

/-! ## opening -/

inductive Fault where
  | oobWrite      -- a copy longer than the destination buffer
  | vecIndex      -- `operator[]` past the end of a vector
  deriving DecidableEq, Repr

/-- ordinary errors (exceptions) and faults (memory-safety violations) are different outcomes -/
inductive E where
  | err (e : Err)
  | fault (f : Fault)
  deriving DecidableEq, Repr

abbrev M := Except E

/-- `memcpy` of `src` into a buffer of `cap` bytes -/
def copyInto (cap : Nat) (src : Bytes) : M Bytes :=
  if src.length ≤ cap then .ok src else .error (.fault .oobWrite)

/-- `std::vector::operator[]` -/
def vecIdx {α : Type} (l : List α) (i : Nat) : M α :=
  match l[i]? with
  | some a => .ok a
  | none => .error (.fault .vecIndex)

/-- `FileReader::Read` of `n` bytes at `pos`: all of them or an error (the position is then unchanged: D5 repair) -/
def readAt (file : Bytes) (pos n : Nat) : M Bytes :=
  if pos + n ≤ file.length then .ok ((file.drop pos).take n) else .error (.err .bounds)

/-- `ReadTag`: section header at `pos` with the expected tag and the four-byte padding flag; returns the length -/
def readTag (file : Bytes) (pos : Nat) (tag : Bytes) : M Nat :=
  match readAt file pos secSize with
  | .error e => .error e
  | .ok h =>
    if h.take 4 ≠ tag then .error (.err .format)
    else if decU32 (h.drop 4) / padFlag = 0 then .error (.err .format)
    else .ok (decU32 (h.drop 4) % padFlag)

/-- the NUL-terminated strings of the name table; an unterminated tail is dropped (`ReadStringTable`) -/
def splitNamesGo : Bytes → Bytes → List Bytes → List Bytes
  | [], _, acc => acc.reverse
  | c :: r, cur, acc => if c = 0 then splitNamesGo r [] (cur.reverse :: acc) else splitNamesGo r (c :: cur) acc
def splitNames (b : Bytes) : List Bytes := splitNamesGo b [] []

def decEntries : Nat → Bytes → List Entry
  | 0, _ => []
  | n + 1, b => decEntry b :: decEntries n (b.drop entrySize)

/-- `CountValidEntries` -/
def countValid : List Entry → Nat
  | [] => 0
  | e :: es => if e.nameOff = invalidName then 0 else countValid es + 1

structure View where
  file : Bytes
  names : List Bytes
  entries : List Entry
  count : Nat
  deriving Repr

/-- which code is modelled: `fixed` = after the repairs, `pinned` = as pinned (D6: the whole section is copied into
    a buffer of whole entries; D7: no check that every valid entry has a name) -/
structure Cfg where
  d6 : Bool
  d7 : Bool
def Cfg.fixed : Cfg := { d6 := true, d7 := true }
def Cfg.pinned : Cfg := { d6 := false, d7 := false }

def openWith (cfg : Cfg) (file : Bytes) : M View :=
  if file.length < secSize then .error (.err .format) else
  match readTag file 0 tagVOL with
  | .error e => .error e
  | .ok hl =>
  if file.length < hl + secSize then .error (.err .format) else
  match readTag file 8 tagVOLH with
  | .error e => .error e
  | .ok vh =>
  if vh ≠ 0 then .error (.err .format) else
  match readTag file 16 tagVOLS with
  | .error e => .error e
  | .ok sl =>
  if hl < sl + secSize * 2 + 4 then .error (.err .format) else
  -- ReadStringTable
  match readAt file 24 4 with
  | .error e => .error e
  | .ok a =>
  let actual := decU32 a
  if actual ≥ allocCap then .error (.err .alloc) else
  match readAt file 28 actual with
  | .error e => .error e
  | .ok chars =>
  let names := splitNames chars
  -- SeekForward(m_StringTableLength - actualStringTableLength - 4), the subtraction in 32 bits
  let p := 28 + actual + u32 (2 * W32 + sl - actual - 4)
  match readTag file p tagVOLI with
  | .error e => .error e
  | .ok il =>
  let cnt := il / entrySize
  let readLen := if cfg.d6 then cnt * entrySize else il
  match (if il > 0 then
          (if cnt * entrySize > allocCap then .error (.err .alloc) else
           match readAt file (p + 8) readLen with
           | .error e => .error e
           | .ok raw => match copyInto (cnt * entrySize) raw with
             | .error e => .error e
             | .ok buf => .ok (decEntries cnt buf))
         else .ok [] : M (List Entry)) with
  | .error e => .error e
  | .ok entries =>
  if hl < u32 (sl + il + headerExtra) then .error (.err .format) else
  let valid := countValid entries
  if cfg.d7 && decide (valid > names.length) then .error (.err .format)
  else .ok { file := file, names := names, entries := entries, count := valid }

/-- `VolFile::VolFile(filename)` on a file with these bytes -/
def «open» (file : Bytes) : M View := openWith Cfg.fixed file

namespace View

/-- `VerifyIndexInBounds` -/
def verify (v : View) (i : Nat) : M Unit := if i ≥ v.count then .error (.err .bounds) else .ok ()

def name (v : View) (i : Nat) : M Bytes :=
  match v.verify i with
  | .error e => .error e
  | .ok _ => vecIdx v.names i

def entry (v : View) (i : Nat) : M Entry :=
  match v.verify i with
  | .error e => .error e
  | .ok _ => vecIdx v.entries i

def size (v : View) (i : Nat) : M Nat := (v.entry i).map (·.size)
def kind (v : View) (i : Nat) : M Nat := (v.entry i).map (·.comp)

/-- the loop of `ArchiveFile::GetIndex` / `Contains` from index `i`, `fuel` iterations left -/
def find (v : View) (q : Bytes) : Nat → Nat → M (Option Nat)
  | 0, _ => .ok none
  | fuel + 1, i =>
    match v.name i with
    | .error e => .error e
    | .ok n => if Path.pathsAreEqual n q then .ok (some i) else find v q fuel (i + 1)

def index (v : View) (q : Bytes) : M Nat :=
  match v.find q v.count 0 with
  | .error e => .error e
  | .ok (some i) => .ok i
  | .ok none => .error (.err .format)

def contains (v : View) (q : Bytes) : M Bool := (v.find q v.count 0).map (·.isSome)

/-- `GetSectionHeader`: absolute seek to the block, read its header, check the tag; returns the 31-bit block length
    and the position just behind the header -/
def blockHeader (v : View) (i : Nat) : M (Nat × Nat) :=
  match v.entry i with
  | .error e => .error e
  | .ok e =>
    match readAt v.file e.dataOff secSize with
    | .error x => .error x
    | .ok h =>
      if h.take 4 ≠ tagVBLK then .error (.err .format)
      else .ok (decU32 (h.drop 4) % padFlag, e.dataOff + secSize)

/-- `FileSliceReader(file, start, len)`: the construction-time bound checks; the slice then delivers these bytes -/
def slice (file : Bytes) (start len : Nat) : M Bytes :=
  if len > W64 - 1 - start then .error (.err .bounds)
  else if start + len > file.length then .error (.err .bounds)
  else .ok ((file.drop start).take len)

/-- `OpenStream(i)` followed by reading the whole stream -/
def stream (v : View) (i : Nat) : M Bytes :=
  match v.blockHeader i with
  | .error e => .error e
  | .ok (len, p) => slice v.file p len

/-- `ExtractFileLzh` up to the decoder: the stored block is loaded whole into a `std::vector` of the recorded length
    (an attacker-sized length is an attacker-sized allocation) by a `Read` that refuses a block the file cannot supply -/
def lzhLoad (v : View) (i : Nat) : M Unit :=
  match v.blockHeader i with
  | .error e => .error e
  | .ok (len, p) =>
    if len ≥ allocCap then .error (.err .alloc)
    else (slice v.file p len).map (fun _ => ())

/-- what `ExtractFile(i, path)` does: `some bytes` written to `path`, or `none` for an LZH member whose stored extent is
    accepted (what the decoder makes of it: C04) -/
def extract (v : View) (i : Nat) : M (Option Bytes) :=
  match v.entry i with
  | .error e => .error e
  | .ok e =>
    if e.comp = uncompressed then (v.stream i).map some
    else if e.comp = lzh then (v.lzhLoad i).map (fun _ => none)
    else .error (.err .format)

end View

/-- the long-lived `VolFile` object: what was parsed at construction plus the shared reader's position -/
structure Obj where
  view : View
  rpos : Nat
  deriving Repr

inductive Op where
  | count | name (i : Nat) | size (i : Nat) | kind (i : Nat) | index (q : Bytes) | contains (q : Bytes)
  | stream (i : Nat) | streamByName (q : Bytes) | extract (i : Nat)
  deriving Repr

inductive Res where
  | num (n : Nat) | bytes (b : Bytes) | lzh | fail (e : E)
  deriving DecidableEq, Repr

def Res.ofNat : M Nat → Res
  | .ok n => .num n
  | .error e => .fail e
def Res.ofBytes : M Bytes → Res
  | .ok b => .bytes b
  | .error e => .fail e

/-- where the shared reader is left by a block access (unobservable: every access starts with an absolute seek) -/
def Obj.seekPos (o : Obj) (i : Nat) : Nat :=
  match o.view.entry i with
  | .ok e => (match o.view.blockHeader i with | .ok (_, p) => p | .error _ => e.dataOff)
  | .error _ => o.rpos

def Obj.step (o : Obj) : Op → Res × Obj
  | .count => (.num o.view.count, o)
  | .name i => (Res.ofBytes (o.view.name i), o)
  | .size i => (Res.ofNat (o.view.size i), o)
  | .kind i => (Res.ofNat (o.view.kind i), o)
  | .index q => (Res.ofNat (o.view.index q), o)
  | .contains q => (Res.ofNat ((o.view.contains q).map (fun b => if b then 1 else 0)), o)
  | .stream i => (Res.ofBytes (o.view.stream i), { o with rpos := o.seekPos i })
  | .streamByName q =>
    match o.view.index q with
    | .ok i => (Res.ofBytes (o.view.stream i), { o with rpos := o.seekPos i })
    | .error e => (.fail e, o)
  | .extract i =>
    match o.view.extract i with
    | .ok (some b) => (.bytes b, { o with rpos := o.seekPos i + b.length })
    | .ok none => (.lzh, { o with rpos := o.seekPos i })
    | .error e => (.fail e, { o with rpos := o.seekPos i })

def Obj.run : Obj → List Op → List Res
  | _, [] => []
  | o, op :: ops => (o.step op).1 :: Obj.run (o.step op).2 ops

/-! ## the frozen description of the format -/
namespace Spec

structure Member where
  name : Bytes
  payload : Bytes      -- the stored bytes of the block
  size : Nat           -- the `fileSize` field (the stored length when uncompressed)
  comp : Nat           -- compression code
  deriving DecidableEq, Repr

structure Desc where
  members : List Member
  unused : Nat         -- trailing unused index slots (`filenameOffset = 0xFFFFFFFF`)
  slack : Nat          -- further zero bytes counted in the length of the index section
  deriving DecidableEq, Repr

def pad4 (n : Nat) : Nat := (n + 3) / 4 * 4

/-- section header: four tag bytes, then the length under the "four-byte padding" flag -/
def sec (tag : Bytes) (len : Nat) : Bytes := tag ++ encU32 (2147483648 + len)

def nameTable (ms : List Member) : Bytes := ms.flatMap (fun m => m.name ++ [0])
def blockLen (m : Member) : Nat := 8 + pad4 m.payload.length
def block (m : Member) : Bytes :=
  sec [86, 66, 76, 75] m.payload.length ++ m.payload ++ zeros (pad4 m.payload.length - m.payload.length)

def volsLen (d : Desc) : Nat := pad4 (4 + (nameTable d.members).length)
def voliLen (d : Desc) : Nat := 14 * (d.members.length + d.unused) + d.slack
def headerLen (d : Desc) : Nat := 8 + 8 + (8 + volsLen d) + (8 + pad4 (voliLen d))

/-- index entries: the k-th names the k-th string at its offset in the table and the k-th block at its position -/
def entries : Nat → Nat → List Member → Bytes
  | _, _, [] => []
  | noff, doff, m :: ms =>
    encU32 noff ++ encU32 doff ++ encU32 m.size ++ encU16 m.comp
    ++ entries (noff + m.name.length + 1) (doff + blockLen m) ms

def unusedEntry : Bytes := encU32 4294967295 ++ encU32 0 ++ encU32 0 ++ encU16 0

def header (d : Desc) : Bytes :=
  sec [86, 79, 76, 32] (headerLen d - 8) ++ sec [118, 111, 108, 104] 0
  ++ sec [118, 111, 108, 115] (volsLen d) ++ encU32 (nameTable d.members).length ++ nameTable d.members
  ++ zeros (volsLen d - 4 - (nameTable d.members).length)
  ++ sec [118, 111, 108, 105] (voliLen d) ++ entries 0 (headerLen d) d.members
  ++ (List.replicate d.unused unusedEntry).flatten
  ++ zeros (pad4 (voliLen d) - 14 * (d.members.length + d.unused))

/-- the reference encoder -/
def refEncode (d : Desc) : Bytes := header d ++ d.members.flatMap block

def totalLen (d : Desc) : Nat := headerLen d + (d.members.map blockLen).sum

/-- `tolower` on unsigned bytes -/
def lowerU (b : UInt8) : Int := if 65 ≤ b.toNat ∧ b.toNat ≤ 90 then (b.toNat + 32 : Nat) else (b.toNat : Nat)
/-- the order a `_stricmp`-style binary search uses: first differing folded byte decides, a proper prefix first -/
def ltSpec (a b : Bytes) : Bool := Str.ltF lowerU a b

def increasing : List Bytes → Bool
  | a :: b :: r => ltSpec a b && increasing (b :: r)
  | _ => true

def memberOk (m : Member) : Bool :=
  !m.name.contains 0 && decide (m.payload.length < 2147483648) && decide (m.size < 4294967296) && decide (m.comp < 65536)

/-- every block starts at an offset that fits the 32-bit index field -/
def offsetsOk : Nat → List Member → Bool
  | _, [] => true
  | doff, m :: ms => decide (doff < 4294967296) && offsetsOk (doff + blockLen m) ms

def Desc.wf (d : Desc) : Bool :=
  d.members.all memberOk && decide (headerLen d < 2147483648) && offsetsOk (headerLen d) d.members
  && (decide (d.slack < 14) || decide (0 < d.unused))

def Desc.strict (d : Desc) : Bool :=
  d.wf && decide (d.unused = 0) && decide (d.slack = 0)
  && d.members.all (fun m => decide (m.comp = 256) && decide (m.size = m.payload.length))
  && increasing (d.members.map (·.name))

/-- well-formed description: encodable without any field overflowing -/
def Desc.WF (d : Desc) : Prop := d.wf = true
/-- the shape of an archive the library itself writes -/
def Desc.Strict (d : Desc) : Prop := d.strict = true

/-- **a conforming archive**: the encoding of a strict description -/
def StrictWF (b : Bytes) : Prop := ∃ d : Desc, d.Strict ∧ refEncode d = b

/-! ### executable check: read the fields back without validating anything, then compare with the encoder -/

def at32 (b : Bytes) (off : Nat) : Nat := decU32 (b.drop off)
def at16 (b : Bytes) (off : Nat) : Nat := decU16 (b.drop off)

def splitGo : Bytes → Bytes → List Bytes → List Bytes
  | [], _, acc => acc.reverse
  | c :: r, cur, acc => if c = 0 then splitGo r [] (cur.reverse :: acc) else splitGo r (c :: cur) acc

def parseMembers (b : Bytes) (ebase : Nat) : Nat → List Bytes → List Member
  | _, [] => []
  | k, n :: ns =>
    let e := ebase + 14 * k
    let doff := at32 b (e + 4)
    let len := at32 b (doff + 4) % 2147483648
    { name := n, payload := (b.drop (doff + 8)).take len, size := at32 b (e + 8), comp := at16 b (e + 12) }
      :: parseMembers b ebase (k + 1) ns

def parse (b : Bytes) : Desc :=
  let sl := at32 b 20 % 2147483648
  let actual := at32 b 24
  let names := splitGo ((b.drop 28).take actual) [] []
  { members := parseMembers b (32 + sl) 0 names, unused := 0, slack := 0 }

/-- executable conformance check -/
def strictWF (b : Bytes) : Bool :=
  let d := parse b
  d.strict && refEncode d == b

/-- binary search for `x` in a list sorted by `lt` (half-open interval `[lo, hi)`, `fuel` halvings) -/
def bsearch (lt : Bytes → Bytes → Bool) (names : List Bytes) (x : Bytes) : Nat → Nat → Nat → Option Nat
  | 0, _, _ => none
  | fuel + 1, lo, hi =>
    if lo ≥ hi then none else
    let mid := (lo + hi) / 2
    match names[mid]? with
    | none => none
    | some n =>
      if lt x n then bsearch lt names x fuel lo mid
      else if lt n x then bsearch lt names x fuel (mid + 1) hi
      else some mid

/-- lookup as the game does it: case-insensitive binary search over the names in index order -/
def lookup (names : List Bytes) (x : Bytes) : Option Nat := bsearch ltSpec names x (names.length + 1) 0 names.length

end Spec
end Op2.Vol
