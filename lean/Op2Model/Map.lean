import Op2Model.Parser
import Op2Model.Bits
import Op2Model.Tile
/-!
# Op2Model.Map — the Outpost 2 map / saved-game format (C06, C07)

Mirrors `src/Map/MapReader.cpp`, `MapWriter.cpp`, `Map.cpp` (as they are after the D13 repair: `ReadMapBeginning`
refuses a header whose log-width is 32 or more or whose tile count does not fit 32 bits).

* readers are sequential parsers built from `take / bind / pure / fail` only (`Op2Model.Parser`), so `Local` and
  `Reads` (`Op2Proofs.ParserLemmas`) apply;
* `MapHeader::WidthInTiles` (`1 << lg`) and `MapHeader::TileCount` (`height << lg`) go through the checked shifts
  `shlOne` / `shl32`, which return an explicit `Fault` where the C++ would execute undefined behaviour; the parsers
  carry it as `Except Fault _` so "no undefined arithmetic" is the theorem `∀ bytes, read bytes ≠ fault`;
* a `Map` holds every public field: header fields, tile words, the clip rectangle (its 16 raw bytes), tileset sources,
  8-byte mapping records and 264-byte terrain records (opaque blobs of the measured size), tile groups.

Attacker-sized allocations (`tiles.resize(n)` etc.) are *not* modelled: the model answers with the error the bulk
read that follows the allocation gives; the harness treats `err:alloc` of the real process as that same error.
-/
namespace Op2.Map
open Op2
open Op2.Parser (take many guard)

/-! ### executable speed: `Parser.take` asks for `xs.length` (linear in the *remaining* input) on every call, which makes
a table of `n` records quadratic and a 370 KB saved game slow.  The replacement below walks `k` cells only; it is proved
equal and installed with `@[csimp]`, so it changes compiled code only (no theorem sees it). -/

/-- `k ≤ xs.length`, looking at no more than `k` cells -/
def hasAtLeast : Nat → Bytes → Bool
  | 0, _ => true
  | _ + 1, [] => false
  | k + 1, _ :: t => hasAtLeast k t

theorem hasAtLeast_eq : ∀ (k : Nat) (xs : Bytes), hasAtLeast k xs = decide (k ≤ xs.length)
  | 0, _ => by simp [hasAtLeast]
  | _ + 1, [] => by simp [hasAtLeast]
  | k + 1, _ :: t => by simp [hasAtLeast, hasAtLeast_eq k t]

def takeFast (k : Nat) : Parser Bytes := fun xs =>
  if hasAtLeast k xs then .ok (xs.take k, xs.drop k) else .error .bounds

@[csimp] theorem take_eq_takeFast : @Parser.take = @takeFast := by
  funext k xs
  simp [Parser.take, takeFast, hasAtLeast_eq]

/-- `Reader::Read(uint32_t&)` (the same term as `Parser.u32`, restated here so that it is compiled with the fast `take`) -/
def rU32 : Parser Nat := Parser.map (Parser.take 4) decU32

theorem rU32_eq : rU32 = Parser.u32 := rfl

/-! ## constants of the format (each has a bridging lemma to `Gen.*` in `Props/C06.lean`) -/
def minMapVersion : Nat := 0x1010
def headerSize : Nat := 20
def rectSize : Nat := 16
def mappingSize : Nat := 8
def terrainSize : Nat := 264
def savedGameSkip : Nat := 0x1E025
def marker : Bytes := [84, 73, 76, 69, 32, 83, 69, 84, 26, 0]   -- "TILE SET\x1a\0"
def maxNameLen : Nat := 8
def object1Size : Nat := 512
def unitsArrayBytes : Nat := 245640     -- sizeof(std::array<UnitRecord, 2047>)
def freeUnitsBytes : Nat := 8192        -- sizeof(std::array<uint32_t, 2048>)
def defaultSizeOfUnit : Nat := 120

structure Source where
  name : Bytes
  numTiles : Nat
  deriving DecidableEq, Repr

structure Group where
  name : Bytes
  w : Nat
  h : Nat
  idx : List Nat
  deriving DecidableEq, Repr

structure Map where
  versionTag : Nat
  savedGame : Bool
  width : Nat
  height : Nat
  tiles : List Nat
  clip : Bytes
  sources : List Source
  mappings : List Bytes
  terrains : List Bytes
  groups : List Group
  deriving DecidableEq, Repr

/-! ## undefined behaviour as a value -/
inductive Fault where
  | shiftTooWide      -- shift count ≥ width of the (promoted) left operand
  | vectorIndex       -- `std::vector::operator[]` outside the vector
  deriving DecidableEq, Repr

/-- `1 << k` with `1 : int`, converted to `uint32_t` (`MapHeader::WidthInTiles`); `k ≥ 32` is UB.
    (`1 << 31` is defined since C++14: the value representable in the unsigned type, converted.) -/
def shlOne (k : Nat) : Except Fault Nat := if 32 ≤ k then .error .shiftTooWide else .ok (u32 (2 ^ k))
/-- `a << k` on `uint32_t` (`MapHeader::TileCount`): high bits are lost (defined), `k ≥ 32` is UB -/
def shl32 (a k : Nat) : Except Fault Nat := if 32 ≤ k then .error .shiftTooWide else .ok (u32 (a * 2 ^ k))

/-- the repaired guard of `ReadMapBeginning`:
    `lg >= 32 || (uint64_t(height) << lg) > UINT32_MAX` ⇒ refuse.  (`||` short-circuits, so the 64-bit shift is only
    evaluated for `lg < 32`, where it cannot lose bits for a 32-bit `height`.) -/
def dimsOk (lg h : Nat) : Bool := if lg < 32 then decide (u64 (h * 2 ^ lg) ≤ 4294967295) else false

/-- `(WidthInTiles(), TileCount())` -/
def dims (lg h : Nat) : Except Fault (Nat × Nat) :=
  match shlOne lg with
  | .error f => .error f
  | .ok w => match shl32 h lg with
    | .error f => .error f
    | .ok n => .ok (w, n)

/-! ## reader -/
structure Header where
  tag : Nat
  sg : Nat
  lg : Nat
  height : Nat
  nsrc : Nat
  deriving DecidableEq, Repr

def pHeader : Parser Header :=
  Parser.bind rU32 fun tag => Parser.bind rU32 fun sg => Parser.bind rU32 fun lg => Parser.bind rU32 fun h => Parser.bind rU32 fun n =>
  Parser.pure ⟨tag, sg, lg, h, n⟩

/-- `Read<uint32_t>(std::string)` then the length check then the conditional tile count
    (`numTiles` of an empty-named source stays value-initialised: 0) -/
def pSource : Parser Source :=
  Parser.bind rU32 fun len => Parser.bind (take len) fun name => Parser.bind (guard (decide (len ≤ maxNameLen))) fun _ =>
  if len = 0 then Parser.pure ⟨name, 0⟩ else Parser.bind rU32 fun c => Parser.pure ⟨name, c⟩

/-- `Read<uint32_t>(std::vector<T>)` for a trivially copyable `T` of `sz` bytes -/
def pBlobs (sz : Nat) : Parser (List Bytes) := Parser.bind rU32 fun n => many (take sz) n

/-- everything `ReadMapBeginning` does after the header checks -/
def pBody (hd : Header) (w n : Nat) : Parser Map :=
  Parser.bind (many rU32 n) fun tiles =>
  Parser.bind (take rectSize) fun clip =>
  Parser.bind (many pSource hd.nsrc) fun srcs =>
  Parser.bind (take 10) fun mk =>
  Parser.bind (guard (mk == marker)) fun _ =>
  Parser.bind (pBlobs mappingSize) fun maps =>
  Parser.bind (pBlobs terrainSize) fun ters =>
  Parser.pure ({ versionTag := hd.tag, savedGame := hd.sg != 0, width := w, height := hd.height, tiles := tiles,
                 clip := clip, sources := srcs, mappings := maps, terrains := ters, groups := [] } : Map)

/-- `Map::ReadMapBeginning` -/
def pBeginning : Parser (Except Fault Map) :=
  Parser.bind pHeader fun hd =>
  Parser.bind (guard (decide (minMapVersion ≤ hd.tag))) fun _ =>
  Parser.bind (guard (dimsOk hd.lg hd.height)) fun _ =>
  match dims hd.lg hd.height with
  | .error f => Parser.pure (.error f)
  | .ok (w, n) => Parser.map (pBody hd w n) .ok

/-- `Map::ReadVersionTag` -/
def pVersionTag (last : Nat) : Parser Unit :=
  Parser.bind rU32 fun t => Parser.bind (guard (decide (minMapVersion ≤ t))) fun _ => guard (t == last)

/-- `Map::ReadTileGroup`: the index count is `tileWidth * tileHeight` in 32 bits (unsigned wrap is defined) -/
def pGroup : Parser Group :=
  Parser.bind rU32 fun w => Parser.bind rU32 fun h => Parser.bind (many rU32 (u32 (w * h))) fun idx =>
  Parser.bind rU32 fun len => Parser.bind (take len) fun name => Parser.pure ⟨name, w, h, idx⟩

/-- `Map::ReadTileGroups`: count, one ignored word, the groups -/
def pGroups : Parser (List Group) := Parser.bind rU32 fun n => Parser.bind rU32 fun _ => many pGroup n

/-- `Map::ReadMap(Stream::Reader&)` -/
def pMap : Parser (Except Fault Map) :=
  Parser.bind pBeginning fun r =>
  match r with
  | .error f => Parser.pure (.error f)
  | .ok m =>
    Parser.bind (pVersionTag m.versionTag) fun _ => Parser.bind (pVersionTag m.versionTag) fun _ =>
    Parser.bind pGroups fun gs => Parser.pure (.ok { m with groups := gs })

/-- `Map::ReadSavedGameUnits` (everything is read and dropped) -/
def pUnits : Parser Unit :=
  Parser.bind rU32 fun unitCount => Parser.bind rU32 fun _lastUsed => Parser.bind rU32 fun nextFree => Parser.bind rU32 fun firstFree =>
  Parser.bind rU32 fun sizeOfUnit =>
  Parser.bind (guard (!(sizeOfUnit != defaultSizeOfUnit && unitCount != 0))) fun _ =>
  Parser.bind rU32 fun c1 => Parser.bind rU32 fun c2 =>
  Parser.bind (take (object1Size * c1)) fun _ => Parser.bind (take (4 * c2)) fun _ =>
  Parser.bind rU32 fun _ => Parser.bind rU32 fun _ =>
  Parser.bind (take unitsArrayBytes) fun _ =>
  if firstFree != nextFree then Parser.bind (take freeUnitsBytes) fun _ => Parser.pure () else Parser.pure ()

/-- `Map::ReadSavedGame(Stream::BidirectionalReader&)` -/
def pSavedGame : Parser (Except Fault Map) :=
  Parser.bind (take savedGameSkip) fun _ =>
  Parser.bind pBeginning fun r =>
  match r with
  | .error f => Parser.pure (.error f)
  | .ok m =>
    Parser.bind (pVersionTag m.versionTag) fun _ => Parser.bind pUnits fun _ => Parser.bind (pVersionTag m.versionTag) fun _ =>
    Parser.pure (.ok m)

/-- what a call of a reader can end in -/
inductive Outcome where
  | ok (m : Map) (consumed : Nat)
  | err (e : Err)
  | fault (f : Fault)
  deriving DecidableEq, Repr

def outcome (p : Parser (Except Fault Map)) (b : Bytes) : Outcome :=
  match Parser.run p b with
  | .ok (.ok m, n) => .ok m n
  | .ok (.error f, _) => .fault f
  | .error e => .err e

def read (b : Bytes) : Outcome := outcome pMap b
def readSavedGame (b : Bytes) : Outcome := outcome pSavedGame b

/-! ## writer -/

/-- `Map::GetWidthInTilesLog2` (width 0 is let through, as in the source) -/
def lgOf (width : Nat) : Except Err Nat :=
  if width != 0 && !Bits.isPow2 width then .error .refused else .ok (Bits.log2OfPow2 width)

def encSource (s : Source) : Bytes :=
  encU32 s.name.length ++ s.name ++ (if s.name.length = 0 then [] else encU32 s.numTiles)

def encBlobs (bs : List Bytes) : Bytes := encU32 bs.length ++ bs.flatMap id

def encGroup (g : Group) : Bytes :=
  encU32 g.w ++ encU32 g.h ++ encU32s g.idx ++ encU32 g.name.length ++ g.name

/-- the word after the tile-group count: "best guess" `size − 1` (0 for no groups) -/
def unknownWord (gs : List Group) : Nat := if gs.isEmpty then 0 else u32 gs.length - 1

def encGroups (gs : List Group) : Bytes :=
  encU32 gs.length ++ encU32 (unknownWord gs) ++ gs.flatMap encGroup

/-- every 32-bit size prefix can hold its container's size (`Writer::Write<uint32_t>`, `WriteContainerSize`,
    the tileset-count check of `CreateHeader`) -/
def fits (m : Map) : Bool :=
  decide (m.sources.length ≤ 4294967295) && m.sources.all (fun s => decide (s.name.length ≤ 4294967295)) &&
  decide (m.mappings.length ≤ 4294967295) && decide (m.terrains.length ≤ 4294967295) &&
  decide (m.groups.length ≤ 4294967295) && m.groups.all (fun g => decide (g.name.length ≤ 4294967295))

def encHeader (tag : Nat) (sg : Bool) (lg h nsrc : Nat) : Bytes :=
  encU32 tag ++ encU32 (if sg then 1 else 0) ++ encU32 lg ++ encU32 h ++ encU32 nsrc

/-- `Map::Write(Stream::Writer&)` -/
def write (m : Map) : Except Err Bytes :=
  match lgOf m.width with
  | .error e => .error e
  | .ok lg =>
    if fits m then
      .ok (encHeader m.versionTag m.savedGame lg m.height m.sources.length ++ encU32s m.tiles ++ m.clip ++
           m.sources.flatMap encSource ++ marker ++ encBlobs m.mappings ++ encBlobs m.terrains ++
           encU32 m.versionTag ++ encU32 m.versionTag ++ encGroups m.groups)
    else .error .refused

/-! ## the public edits -/

/-- `Map::SetCellType(cellType, x, y)`; the enumerator is seen as its unsigned 32-bit value.  A coordinate outside the
    tile array is undefined behaviour in the C++ (`tiles[...]`), reported as a fault here. -/
def setCellType (m : Map) (v x y : Nat) : Except Fault (Except Err Map) :=
  if v > 31 then .ok (.error .refused) else
  let i := Tile.tileIndex m.height x y
  if i < m.tiles.length then .ok (.ok { m with tiles := Tile.modifyAt m.tiles i (fun w => Tile.withCellType w v) })
  else .error .vectorIndex

/-- `Map::SetLavaPossible(lavaPossible, x, y)` -/
def setLavaPossible (m : Map) (b : Bool) (x y : Nat) : Except Fault Map :=
  let i := Tile.tileIndex m.height x y
  if i < m.tiles.length then .ok { m with tiles := Tile.modifyAt m.tiles i (fun w => Tile.withLavaPossible w b) }
  else .error .vectorIndex

/-- `Map::SetVersionTag(uint32_t)` -/
def setVersionTag (m : Map) (v : Nat) : Map := { m with versionTag := v }

/-- `TilesetSource::IsEmpty` -/
def Source.isEmpty (s : Source) : Bool := s.numTiles == 0 || s.name.isEmpty

/-- `Map::TrimTilesetSources` -/
def trimTilesetSources (m : Map) : Map := { m with sources := m.sources.filter (fun s => !s.isEmpty) }

/-! ## frozen description of the format (independent of `write`; DESIGN §5.2) -/
namespace Spec

/-- the maps that have a file: what every field must satisfy to be representable -/
structure WF (m : Map) : Prop where
  tagMin : minMapVersion ≤ m.versionTag
  tagLt : m.versionTag < W32
  heightLt : m.height < W32
  width : ∃ k, k < 32 ∧ m.width = 2 ^ k
  count : m.tiles.length = m.height * m.width
  countLt : m.height * m.width < W32
  tiles : ∀ t ∈ m.tiles, t < W32
  clip : m.clip.length = rectSize
  nsrc : m.sources.length < W32
  src : ∀ s ∈ m.sources, s.name.length ≤ maxNameLen ∧ s.numTiles < W32 ∧ (s.name.length = 0 → s.numTiles = 0)
  nmap : m.mappings.length < W32
  maps : ∀ b ∈ m.mappings, b.length = mappingSize
  nter : m.terrains.length < W32
  ters : ∀ b ∈ m.terrains, b.length = terrainSize
  ngrp : m.groups.length < W32
  grps : ∀ g ∈ m.groups, g.w < W32 ∧ g.h < W32 ∧ g.idx.length = u32 (g.w * g.h) ∧ (∀ i ∈ g.idx, i < W32) ∧
    g.name.length < W32

/-- base-2 logarithm by search (not the De Bruijn look-up of the library) -/
def lg (w : Nat) : Nat := (List.range 32).findIdx (fun k => 2 ^ k == w)

/-- the file of a map, field by field in file order -/
def encode (m : Map) : Bytes :=
  -- header: version tag, saved-game flag as 0/1, log2 width, height, number of tileset sources
  encU32 m.versionTag ++ encU32 (if m.savedGame then 1 else 0) ++ encU32 (lg m.width) ++ encU32 m.height ++
  encU32 m.sources.length ++
  -- tile words, clip rectangle
  m.tiles.flatMap encU32 ++ m.clip ++
  -- tileset sources: length-prefixed name, tile count only after a non-empty name
  m.sources.flatMap (fun s => encU32 s.name.length ++ s.name ++ (if s.name = [] then [] else encU32 s.numTiles)) ++
  -- marker, the two record tables
  [0x54, 0x49, 0x4C, 0x45, 0x20, 0x53, 0x45, 0x54, 0x1A, 0x00] ++           -- "TILE SET", 0x1A, NUL
  encU32 m.mappings.length ++ m.mappings.flatMap id ++
  encU32 m.terrains.length ++ m.terrains.flatMap id ++
  -- the version tag twice more
  encU32 m.versionTag ++ encU32 m.versionTag ++
  -- tile groups: count, count − 1 (0 when empty), then per group width, height, indices, length-prefixed name
  encU32 m.groups.length ++ encU32 (m.groups.length - 1) ++
  m.groups.flatMap (fun g => encU32 g.w ++ encU32 g.h ++ g.idx.flatMap encU32 ++ encU32 g.name.length ++ g.name)

end Spec

end Op2.Map
