import Op2Model.Basic
/-!
# Op2Model.Bits — BitTwiddle.cpp (C19, C06)
-/
namespace Op2.Bits
open Op2

/-- `IsPowerOf2(uint32_t)`: `value && !(value & (value - 1))` with the subtraction in 32 bits -/
def isPow2 (v : Nat) : Bool := v != 0 && (v &&& u32 (W32 + v - 1)) == 0

def deBruijn : List Nat :=
  [0, 1, 28, 2, 29, 14, 24, 3, 30, 22, 20, 15, 25, 17, 4, 8,
   31, 27, 13, 23, 21, 19, 16, 7, 26, 12, 18, 6, 11, 5, 10, 9]

/-- `Log2OfPowerOf2(uint32_t)`: De Bruijn multiply-and-look-up -/
def log2OfPow2 (v : Nat) : Nat := deBruijn.getD (u32 (v * 0x077CB531) >>> 27) 0

end Op2.Bits
