import Op2Model.Bmp
import Op2Model.Stream
/-!
# Op2Model.Tileset — the custom tileset format and the format-detecting loader (C09, C11): `src/Sprite/Tileset*`

Mirrors `Tileset::PeekIsCustomTileset / ReadTileset / ReadCustomTileset / WriteCustomTileset / ValidateTileset`,
`TilesetHeader::Validate / Create`, `PpalHeader::Validate / Create` as they are after the repairs D22 (pixel heights
above INT32_MAX refused) and D24 (palette padded to the 256 entries the section header promises).

`Spec` is the frozen, independently written description of the custom format.
-/
namespace Op2.Tileset
open Op2 Op2.Bmp

def tagPBMP : Bytes := [80, 66, 77, 80]
def tagHead : Bytes := [104, 101, 97, 100]
def tagPPAL : Bytes := [80, 80, 65, 76]
def tagData : Bytes := [100, 97, 116, 97]

def pixelWidth : Nat := 32
def heightMultiple : Nat := 32
def bitDepth : Nat := 8
def headSectionSize : Nat := 20
def headTagCount : Nat := 2
def flags : Nat := 8
def ppalSectionSize : Nat := 1048
def ppalHeadSectionSize : Nat := 4
def ppalTagCount : Nat := 1
def paletteSectionSize : Nat := 1024
def sizeTag : Nat := 4
def sizeTilesetHeader : Nat := 28
def sizePpalHeader : Nat := 20

/-- `ValidateTileset`: `height % 32` is evaluated after the usual conversion of the `int32_t` to `uint32_t` -/
def validateTs (f : Bmp) : Out Unit :=
  if f.ih.bitCount = bitDepth ∧ f.ih.width = 32 ∧ toU32 f.ih.height % heightMultiple = 0 then .ok () else .err .format

/-- `CalculatePixelHeaderLength` (`uint32_t`) -/
def pixelHeaderLength (h : Nat) : Nat := (pixelWidth * h) % W32
/-- `CalculatePbmpSectionSize` (`uint32_t`) -/
def pbmpSectionSize (h : Nat) : Nat :=
  (W32 + (sizeTag + sizeTilesetHeader + sizePpalHeader + sizeTag + paletteSectionSize + sizeTag + pixelHeaderLength h) - 16) % W32

/-! ## `PeekIsCustomTileset` on a `MemoryReader` -/

/-- result and the reader afterwards (`Peek` = `ReadImplementation` then `SeekBackward`; an exception leaves the reader
    as the failed call left it) -/
def peekIsCustom (s : Stream.MemR) : Except Err Bool × Stream.MemR :=
  match Stream.MemR.peek s 4 with
  | .ok (b, s') => (.ok (decide (b = tagPBMP)), s')
  | .error e => (.error e, s)

/-! ## `TilesetHeader::Validate`, `PpalHeader::Validate` — the two header guards of `ReadCustomTileset`

Named so that the lemmas about the C++ translated on every run (`Op2Proofs/Props/C09_Gen.lean`) and the reader `Rd.custom` below refer
to the *same* definition: a tag is the four bytes read, the other fields are the `uint32_t` values read. -/

/-- `TilesetHeader::Validate` does not throw: section tag `head`, section length 20, width 32, height a multiple of 32 and (D22) at most
    INT32_MAX, tag count 2 -/
def tilesetHeaderOk (tag : Bytes) (len tagCount pw ph : Nat) : Bool :=
  decide (tag = tagHead ∧ len = headSectionSize ∧ pw = pixelWidth ∧ ph % heightMultiple = 0 ∧
          ph ≤ 2147483647 ∧ tagCount = headTagCount)

/-- `PpalHeader::Validate` does not throw: section tag `PPAL` of length 1048, inner section tag `head` of length 4, tag count 1 -/
def ppalHeaderOk (ppalTag : Bytes) (plen : Nat) (headTag : Bytes) (hlen tagCount : Nat) : Bool :=
  decide (ppalTag = tagPPAL ∧ plen = ppalSectionSize ∧ headTag = tagHead ∧ hlen = ppalHeadSectionSize ∧
          tagCount = ppalTagCount)

/-! ## `ReadCustomTileset` -/

namespace Rd
open Op2.Parser

def sectionHeader : Parser (Bytes × Nat) :=
  Parser.bind (take 4) fun tag => Parser.bind Parser.u32 fun len => Parser.pure (tag, len)

def custom : Parser (Out Bmp) :=
  Parser.bind sectionHeader fun sig =>
  Parser.bind (guard (decide (sig.1 = tagPBMP ∧ sig.2 ≠ 0))) fun _ =>
  -- TilesetHeader
  Parser.bind sectionHeader fun head =>
  Parser.bind Parser.u32 fun tagCount =>
  Parser.bind Parser.u32 fun pw =>
  Parser.bind Parser.u32 fun ph =>
  Parser.bind Parser.u32 fun bd =>
  Parser.bind Parser.u32 fun _flags =>
  Parser.bind (guard (tilesetHeaderOk head.1 head.2 tagCount pw ph)) fun _ =>
  -- PpalHeader
  Parser.bind sectionHeader fun ppal =>
  Parser.bind sectionHeader fun phead =>
  Parser.bind Parser.u32 fun ptc =>
  Parser.bind (guard (ppalHeaderOk ppal.1 ppal.2 phead.1 phead.2 ptc)) fun _ =>
  -- palette section header
  Parser.bind sectionHeader fun pdata =>
  Parser.bind (guard (decide (pdata.1 = tagData ∧ pdata.2 = paletteSectionSize))) fun _ =>
  -- CreateIndexed(uint16_t(bitDepth), pixelWidth, int32_t(pixelHeight * -1))
  match createShape (bd % W16) pw (Op2.i32 (((W32 - 1) * ph) % W32)) with
  | .fault g => Parser.pure (.fault g)
  | .err e => Parser.fail e
  | .ok bm =>
    Parser.bind (many Bmp.Rd.color bm.npal) fun pal =>
    Parser.bind sectionHeader fun xdata =>
    Parser.bind (guard (decide (xdata.1 = tagData ∧ xdata.2 = pixelHeaderLength ph))) fun _ =>
    Parser.bind (take bm.npix) fun px =>
    let f := swapRedAndBlue { bh := bm.bh, ih := bm.ih, palette := pal, pixels := px }
    match validateTs f with
    | .ok _ => Parser.pure (.ok f)
    | .err e => Parser.fail e
    | .fault g => Parser.pure (.fault g)
end Rd

def readCustom (b : Bytes) : Out Bmp := runOut Rd.custom b

/-- `ReadTileset` on a stream holding exactly `b`, positioned at its start -/
def read (b : Bytes) : Out Bmp :=
  match (peekIsCustom { data := b, pos := 0 }).1 with
  | .error e => .err e
  | .ok true => readCustom b
  | .ok false =>
    match Bmp.read b with
    | .ok f =>
      (match validateTs f with
       | .ok _ => .ok f
       | .err e => .err e
       | .fault g => .fault g)
    | o => o

/-! ## `WriteCustomTileset` -/

def encSection (tag : Bytes) (len : Nat) : Bytes := tag ++ encU32 len

def writeCustom (f0 : Bmp) : Out Bytes :=
  match validateTs f0 with
  | .err e => .err e
  | .fault g => .fault g
  | .ok _ =>
    match verifyPalette f0 with
    | .err e => .err e
    | .fault g => .fault g
    | .ok _ =>
      let f1 := { f0 with palette := f0.palette ++ List.replicate (256 - f0.palette.length) Color.black }
      let inv : Out Bmp := if isTopDown f1 then .ok f1 else invert f1
      match inv with
      | .err e => .err e
      | .fault g => .fault g
      | .ok f =>
        match absoluteHeight f with
        | .err e => .err e
        | .fault g => .fault g
        | .ok h =>
          .ok (encSection tagPBMP (pbmpSectionSize h) ++
               (encSection tagHead headSectionSize ++ encU32 headTagCount ++ encU32 pixelWidth ++
                encU32 ((h / heightMultiple * heightMultiple) % W32) ++ encU32 bitDepth ++ encU32 flags) ++
               (encSection tagPPAL ppalSectionSize ++ encSection tagHead ppalHeadSectionSize ++ encU32 ppalTagCount) ++
               encSection tagData paletteSectionSize ++
               encPalette (f.palette.map Color.swapRB) ++
               encSection tagData (pixelHeaderLength h) ++
               f.pixels)

/-! ## the frozen description of the custom format -/

namespace Spec

/-- a tileset picture: 256 colours, rows of 32 pixel bytes listed top-down -/
structure Picture where
  palette : List Color
  rows : List Bytes
  deriving DecidableEq, Repr

def Picture.WF (p : Picture) : Prop :=
  p.palette.length = 256 ∧ p.rows.length % 32 = 0 ∧ p.rows.length < 2147483648 ∧ ∀ r ∈ p.rows, r.length = 32

def le32 (v : Nat) : Bytes := encU32 v
def ascii4 (a b c d : Char) : Bytes := [UInt8.ofNat a.toNat, UInt8.ofNat b.toNat, UInt8.ofNat c.toNat, UInt8.ofNat d.toNat]

/-- colour as stored: blue, green, red, alpha -/
def bgra (c : Color) : Bytes := [c.blue, c.green, c.red, c.alpha]

/--
```
"PBMP" len            len = 1068 + 32·h  (the library counts 28 bytes fewer than follow the length field)
  "head" 0x14  { tagCount 2, width 32, height h, bitDepth 8, flags 8 }
  "PPAL" 1048
    "head" 4   { tagCount 1 }
    "data" 1024  256 × (blue, green, red, alpha)
  "data" 32·h    h rows of 32 bytes, top row first
```
-/
def encode (p : Picture) : Bytes :=
  let h := p.rows.length
  ascii4 'P' 'B' 'M' 'P' ++ le32 (1068 + 32 * h) ++
  ascii4 'h' 'e' 'a' 'd' ++ le32 0x14 ++ le32 2 ++ le32 32 ++ le32 h ++ le32 8 ++ le32 8 ++
  ascii4 'P' 'P' 'A' 'L' ++ le32 1048 ++
  ascii4 'h' 'e' 'a' 'd' ++ le32 4 ++ le32 1 ++
  ascii4 'd' 'a' 't' 'a' ++ le32 1024 ++ p.palette.flatMap bgra ++
  ascii4 'd' 'a' 't' 'a' ++ le32 (32 * h) ++ p.rows.flatten

end Spec

/-- the picture a bitmap object shows: palette padded with black to 256 entries, rows listed top-down -/
def picture (f : Bmp) : Spec.Picture :=
  let rows := storedRows f.pixels 32 f.ih.height.natAbs
  { palette := f.palette ++ List.replicate (256 - f.palette.length) Color.black,
    rows := if f.ih.height < 0 then rows else rows.reverse }

/-- the tileset constraints on a well-formed bitmap object -/
def ValidPicture (f : Bmp) : Prop :=
  f.ih.bitCount = 8 ∧ f.ih.width = 32 ∧ f.ih.height % 32 = 0 ∧ I32_MIN < f.ih.height ∧ f.ih.height ≤ I32_MAX ∧
  f.palette.length ≤ 256 ∧ f.pixels.length = 32 * f.ih.height.natAbs

instance (f : Bmp) : Decidable (ValidPicture f) := by unfold ValidPicture; infer_instance

end Op2.Tileset
