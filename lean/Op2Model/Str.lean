import Op2Model.Basic
/-!
# Op2Model.Str — StringUtility comparators (C19, used by C01–C03, C17)

`tolower` / `toupper` are applied by the library to `char` (signed on this platform) promoted
to `int`.  glibc's C-locale tables map 'A'..'Z' to 'a'..'z', return the *unsigned* value for
bytes 0x80..0xFE and `EOF` (−1) for 0xFF.  That table is trusted-base (checked exhaustively
over all 256 bytes by the `std-ctype` correspondence group).
-/
namespace Op2.Str

/-- `::tolower(char)` as an `int` -/
def lowerI (b : UInt8) : Int :=
  if 65 ≤ b.toNat ∧ b.toNat ≤ 90 then (b.toNat + 32 : Nat)
  else if b.toNat = 255 then -1
  else (b.toNat : Nat)

/-- `c = toupper(c)` stored back into a `char` -/
def upperB (b : UInt8) : UInt8 :=
  if 97 ≤ b.toNat ∧ b.toNat ≤ 122 then UInt8.ofNat (b.toNat - 32) else b

def toUpper (s : Bytes) : Bytes := s.map upperB

/-- generic "comes before": first differing folded character decides, a proper prefix comes first.
    `StringUtility::IsEqualCaseInsensitive` is `ltF lowerI`. -/
def ltF {α : Type} (f : α → Int) : List α → List α → Bool
  | [], [] => false
  | [], _ :: _ => true
  | _ :: _, [] => false
  | a :: as, b :: bs => if f a < f b then true else if f a > f b then false else ltF f as bs

/-- generic folded equality.  `StringUtility::IsEqual` is `eqF lowerI`. -/
def eqF {α : Type} (f : α → Int) : List α → List α → Bool
  | [], [] => true
  | a :: as, b :: bs => f a == f b && eqF f as bs
  | _, _ => false

/-- `StringUtility::IsEqualCaseInsensitive` (despite its name: a strict "less than") -/
def ltCI (a b : Bytes) : Bool := ltF lowerI a b
/-- `StringUtility::IsEqual` -/
def eqCI (a b : Bytes) : Bool := eqF lowerI a b

/-- `VerifySortedContainerHasNoDuplicateNames`: true when some adjacent pair is equal ignoring case -/
def hasAdjacentDup : List Bytes → Bool
  | a :: b :: rest => eqCI a b || hasAdjacentDup (b :: rest)
  | _ => false

/-- insertion into a list sorted by `ltCI` (stable) — the executable stand-in for `std::sort` -/
def insertCI (key : α → Bytes) (x : α) : List α → List α
  | [] => [x]
  | y :: ys => if ltCI (key x) (key y) then x :: y :: ys else y :: insertCI key x ys

def sortCI (key : α → Bytes) (xs : List α) : List α := xs.foldr (insertCI key) []

end Op2.Str
