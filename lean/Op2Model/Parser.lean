import Op2Model.Basic
/-!
# Op2Model.Parser — sequential byte parsers (shared by the map, bitmap, tileset and PRT readers)

A parser consumes a prefix of its input and returns the rest.  The *only* primitive that touches the input is
`take k` (the abstract `Reader::Read` of C12: exactly `k` bytes or an error, never short); every format reader is
built from `pure / fail / take / bind`, so the structural lemmas of `Op2Proofs.ParserLemmas` (`Local`, `Reads`)
apply to all of them.
-/
namespace Op2

def Parser (α : Type) := Bytes → Except Err (α × Bytes)

namespace Parser
@[inline] def pure {α : Type} (a : α) : Parser α := fun xs => .ok (a, xs)
@[inline] def fail {α : Type} (e : Err) : Parser α := fun _ => .error e
@[inline] def bind {α β : Type} (p : Parser α) (f : α → Parser β) : Parser β := fun xs =>
  match p xs with
  | .ok (a, rest) => f a rest
  | .error e => .error e
/-- `Reader::Read(buffer, k)`: all `k` bytes or an error -/
def take (k : Nat) : Parser Bytes := fun xs =>
  if k ≤ xs.length then .ok (xs.take k, xs.drop k) else .error .bounds
@[inline] def map {α β : Type} (p : Parser α) (f : α → β) : Parser β := bind p (fun a => pure (f a))
/-- refuse unless `c` -/
@[inline] def guard (c : Bool) (e : Err := .format) : Parser Unit := if c then pure () else fail e

instance : Monad Parser where
  pure := Parser.pure
  bind := Parser.bind

def u8 : Parser Nat := map (take 1) (fun b => (b.headD 0).toNat)
def u16 : Parser Nat := map (take 2) decU16
def u32 : Parser Nat := map (take 4) decU32
/-- `n` items read one after the other -/
def many {α : Type} (p : Parser α) : Nat → Parser (List α)
  | 0 => pure []
  | n + 1 => bind p (fun a => bind (many p n) (fun as => pure (a :: as)))

/-- run on a whole input; the number of bytes consumed is `input.length - rest.length` -/
def run {α : Type} (p : Parser α) (xs : Bytes) : Except Err (α × Nat) :=
  match p xs with
  | .ok (a, rest) => .ok (a, xs.length - rest.length)
  | .error e => .error e
end Parser
end Op2
