import Op2Model.Basic
/-!
# Op2Model.Determ — fresh memory as an explicit garbage oracle (C18)

A record the library builds and then serialises starts as `size` bytes of *whatever the memory held* — the garbage
oracle `g` — and receives the bytes its constructor / factory assigns.  `uninit` lists the byte positions no assignment
reaches; it is **measured** from the current sources on every run (`Gen.Layout.uninit_*`: the record is constructed
in place over storage pre-filled with 0x00, 0xFF and 0xA5 and the three images are compared).
-/
namespace Op2.Determ
open Op2

/-- the serialised image of a record: assigned bytes, except that positions in `uninit` show the garbage -/
def image (g : Nat → UInt8) (assigned : Bytes) (uninit : List Nat) : Bytes :=
  (List.range assigned.length).map (fun i => if uninit.contains i then g i else assigned.getD i 0)

end Op2.Determ
