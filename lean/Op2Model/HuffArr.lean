import Op2Model.Huff
/-!
# Op2Model.HuffArr — the adaptive Huffman tree on arrays (the executable form)

`TA` keeps the three tables of `AdaptiveHuffmanTree` as arrays, exactly like the C++ object; every store is a
bounds-checked `Array.setIfInBounds` (a store outside the array would be *dropped*, which is how a memory-safety
violation would show up here: the array run would stop agreeing with the function-level run).
`Op2Proofs.Huff.Arr` proves `view (TA.update a code) = TF.update (view a) code` for every well-formed tree, i.e. every
index the update touches lies inside the tables ("stays within the tree's own memory"), and the drivers run `TA`.
-/
namespace Op2.Huff

structure TA where
  T : Nat
  link : Array Nat
  cnt : Array Nat
  par : Array Nat

/-- an array seen as a total function (0 outside) -/
def vw (a : Array Nat) : Nat → Nat := fun i => a.getD i 0

namespace TA
def n (a : TA) : Nat := 2 * a.T - 1
def root (a : TA) : Nat := a.n - 1

def view (a : TA) : TF := { T := a.T, link := vw a.link, cnt := vw a.cnt, par := vw a.par }

/-- the tables have the sizes the constructor gives them: `nodeCount`, `nodeCount`, `nodeCount + terminalNodeCount` -/
def Sized (a : TA) : Prop := a.link.size = a.n ∧ a.cnt.size = a.n ∧ a.par.size = a.n + a.T

def swap (a : TA) (x y : Nat) : TA :=
  let la := a.link.getD x 0
  let lb := a.link.getD y 0
  let cx := a.cnt.getD x 0
  let cy := a.cnt.getD y 0
  let nn := a.n
  let par := a.par.setIfInBounds la y
  let par := if la < nn then par.setIfInBounds (la + 1) y else par
  let par := par.setIfInBounds lb x
  let par := if lb < nn then par.setIfInBounds (lb + 1) x else par
  { a with cnt := (a.cnt.setIfInBounds x cy).setIfInBounds y cx,
           par := par,
           link := (a.link.setIfInBounds x lb).setIfInBounds y la }

def scan (cnt : Array Nat) (c b : Nat) : Nat → Nat
  | 0 => b
  | fuel + 1 => if cnt.getD c 0 > cnt.getD (b + 1) 0 then scan cnt c (b + 1) fuel else b

def bump (a : TA) (i : Nat) : TA := { a with cnt := a.cnt.setIfInBounds i (a.cnt.getD i 0 + 1) }

def climb (a : TA) (c : Nat) : Nat → TA
  | 0 => a
  | fuel + 1 =>
    if c = a.root then a else
      let b := scan a.cnt c c a.n
      let a1 := a.swap c b
      let p := a1.par.getD b 0
      climb (a1.bump p) p fuel

def update (a : TA) (code : Nat) : TA :=
  let c := a.par.getD (code + a.n) 0
  climb (a.bump c) c a.n

/-- `UpdateCodeCount` with its argument and capacity checks -/
def updateChecked (a : TA) (code : Nat) : Except Err TA :=
  if code ≥ a.T then .error .refused
  else if a.cnt.getD a.root 0 ≥ TF.maxCount then .error .refused
  else .ok (a.update code)

/-- the tables of a function-level tree frozen into arrays -/
def ofTF (t : TF) : TA :=
  { T := t.T,
    link := Array.ofFn (n := t.n) (fun i => t.link i.val),
    cnt := Array.ofFn (n := t.n) (fun i => t.cnt i.val),
    par := Array.ofFn (n := t.n + t.T) (fun i => t.par i.val) }

def init (T : Nat) : TA := ofTF (TF.init T)

/-- `GetChildNode / IsLeaf / GetNodeData` with `VerifyNodeIndexInBounds` -/
def child (a : TA) (node bit : Nat) : Except Err Nat :=
  if node ≥ a.n then .error .bounds else .ok (a.link.getD node 0 + bit)
def isLeaf (a : TA) (node : Nat) : Except Err Bool :=
  if node ≥ a.n then .error .bounds else .ok (a.link.getD node 0 ≥ a.n)
def nodeData (a : TA) (node : Nat) : Except Err Nat :=
  if node ≥ a.n then .error .bounds else .ok (a.link.getD node 0 - a.n)

end TA
end Op2.Huff
