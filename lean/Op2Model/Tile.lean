import Op2Model.Basic
/-!
# Op2Model.Tile — tile addressing and the `Tile` bit-field accessors of `Map` (C16)

A tile is its 32-bit little-endian word.  Field positions are those g++ gives the bit-field
declaration in `Tile.h`; they are re-measured from the current headers on every run
(`Gen.Layout.tileMask_*`) and the bridging lemmas in `Op2Proofs.Props.C16` fail if they move.
-/
namespace Op2.Tile
open Op2

/-- `Map::GetTileIndex` : `((x >> 5) * heightInTiles + y) * 32 + (x & 0x1F)` in `size_t` -/
def tileIndex (h x y : Nat) : Nat := u64 (u64 (u64 (u64 ((x >>> 5) * h) + y) * 32) + (x &&& 31))

/-- the same in ℕ, which is what it equals for every in-range coordinate -/
def tileIndexN (h x y : Nat) : Nat := ((x / 32) * h + y) * 32 + x % 32

def cellTypeOf (w : Nat) : Nat := w % 32
def mappingIndexOf (w : Nat) : Nat := (w / 32) % 2048
def unitIndexOf (w : Nat) : Nat := (w / 65536) % 2048
def lavaOf (w : Nat) : Bool := (w / 134217728) % 2 = 1
def lavaPossibleOf (w : Nat) : Bool := (w / 268435456) % 2 = 1
def expansionOf (w : Nat) : Bool := (w / 536870912) % 2 = 1
def microbeOf (w : Nat) : Bool := (w / 1073741824) % 2 = 1
def wallOf (w : Nat) : Bool := (w / 2147483648) % 2 = 1

/-- `tile.cellType = v` for `v < 32` -/
def withCellType (w v : Nat) : Nat := w - w % 32 + v % 32
/-- `tile.bLavaPossible = b` -/
def withLavaPossible (w : Nat) (b : Bool) : Nat :=
  w - ((w / 268435456) % 2) * 268435456 + (if b then 268435456 else 0)

/-- `Map::SetCellType` on one tile word: the enumerator argument is seen as an unsigned 32-bit
    value (after the D14 repair `CellType` has an unsigned underlying type) -/
def setCellType (v : Nat) (w : Nat) : Except Err Nat :=
  if v > 31 then .error .refused else .ok (withCellType w v)

/-- update the tile at index `i` of a tile array -/
def modifyAt (tiles : List Nat) (i : Nat) (f : Nat → Nat) : List Nat :=
  tiles.modify i f

end Op2.Tile
