import Op2Model.Parser
import Op2Model.Gen.Layout
/-!
# Op2Model.Prt — PRT sprite metadata (`ArtFile`) and sprite extraction (`SpriteLoader`)

Mirrors `src/Sprite/{ArtReader,ArtWriter,ArtFile,SpriteLoader}.cpp` as they are after the `fix:` commits of family
`prt` (image-index check `>=`, scan-line round-up in 64 bits, width guard in `ExtractImage`, `unknownAnimationCount`
initialised, `Animation`/`Frame` not packed).

* `readFull / read` — the reader as a `Parser` built from `take / bind / pure / fail / many` only, so the structural
  lemmas `Local` / `Reads` apply.  Consecutive reads with no decision between them are one `take` (errors carry no
  position); a bulk read of `n` records is `many` of the record parser (both refuse exactly when fewer than `n·size`
  bytes are left).
* `write` — the writer with its checks in the order of the C++.
* `rules` — the cross-field rules of property C10, in ℕ.
* `Spec` — frozen, independently written description of the format (`encode`, `WF`).
* `verifyIndex`, `extractImage` — follow-up operations; every vector / buffer access of the C++ goes through a checked
  primitive (`idx`, `slice`) that returns an explicit `Fault`.
-/
namespace Op2.Prt
open Op2

/-! ## the in-memory structure (public fields of `ArtFile`) -/

/-- `OP2Utility::Color`, fields in declaration (= memory) order -/
structure Color where
  red : UInt8
  green : UInt8
  blue : UInt8
  alpha : UInt8
  deriving DecidableEq, Repr, Inhabited

/-- `Palette8Bit = std::array<Color, 256>` -/
abbrev Palette := List Color

structure ImageMeta where
  scanLineByteWidth : Nat   -- uint32
  pixelDataOffset : Nat     -- uint32
  height : Nat              -- uint32
  width : Nat               -- uint32
  type : Nat                -- 16 bits of flags (`ImageType`)
  paletteIndex : Nat        -- uint16
  deriving DecidableEq, Repr, Inhabited

/-- `Animation::Frame::LayerMetadata`: `count : 7`, `bReadOptionalData : 1` -/
structure LayerMeta where
  count : Nat
  flag : Bool
  deriving DecidableEq, Repr, Inhabited

structure Layer where
  bitmapIndex : Nat   -- uint16
  unknown : Nat       -- uint8
  frameIndex : Nat    -- uint8
  px : Nat            -- int16, kept as its 16-bit word
  py : Nat
  deriving DecidableEq, Repr, Inhabited

structure Frame where
  layerMeta : LayerMeta
  unknownBits : LayerMeta
  optional1 : Nat
  optional2 : Nat
  optional3 : Nat
  optional4 : Nat
  layers : List Layer
  deriving DecidableEq, Repr, Inhabited

structure UnknownContainer where
  u1 : Nat
  u2 : Nat
  u3 : Nat
  u4 : Nat
  deriving DecidableEq, Repr, Inhabited

structure Animation where
  unknown : Nat
  x1 : Nat   -- selectionRect (int32 words)
  y1 : Nat
  x2 : Nat
  y2 : Nat
  dx : Nat   -- pixelDisplacement
  dy : Nat
  unknown2 : Nat
  frames : List Frame
  unknownContainer : List UnknownContainer
  deriving DecidableEq, Repr, Inhabited

structure ArtFile where
  palettes : List Palette
  imageMetas : List ImageMeta
  animations : List Animation
  unknownAnimationCount : Nat
  deriving DecidableEq, Repr, Inhabited

def totalFrames (ans : List Animation) : Nat := (ans.map (fun an => an.frames.length)).sum
def frameLayers (fs : List Frame) : Nat := (fs.map (fun f => f.layers.length)).sum
def totalLayers (ans : List Animation) : Nat := (ans.map (fun an => frameLayers an.frames)).sum

/-! ## constants -/

def tagCPAL : Bytes := [0x43, 0x50, 0x41, 0x4C]
def tagPPAL : Bytes := [0x50, 0x50, 0x41, 0x4C]
def tagHead : Bytes := [0x68, 0x65, 0x61, 0x64]
def tagData : Bytes := [0x64, 0x61, 0x74, 0x61]

/-- requests above this are refused by the harness allocator (`err:alloc`); DESIGN §5.1 -/
def allocCap : Nat := 1073741824
def M32 : Nat := 4294967295
/-- the harness allocator grants a request for `n` items of `size` bytes -/
def fits (n size : Nat) : Bool := decide (n * size ≤ allocCap)
theorem fits_iff {n size : Nat} : fits n size = true ↔ n * size ≤ allocCap := by simp [fits]

/-! ## the cross-field rules (property C10), in ℕ -/

def roundUp4 (w : Nat) : Nat := (w + 3) / 4 * 4

def rules (a : ArtFile) : Prop :=
  (∀ im ∈ a.imageMetas, im.paletteIndex < a.palettes.length ∧ im.scanLineByteWidth = roundUp4 im.width) ∧
  (∀ an ∈ a.animations, ∀ f ∈ an.frames, f.layerMeta.count = f.layers.length)

/-- `ArtFile::ValidateImageMetadata` for one image: `(uint64(width) + 3) & ~uint64(3)`, `paletteIndex >= palettes.size()` -/
def imageOk (np : Nat) (im : ImageMeta) : Bool :=
  im.scanLineByteWidth == u64 (im.width + 3) / 4 * 4 && decide (im.paletteIndex < np)

def frameOk (f : Frame) : Bool := f.layerMeta.count == f.layers.length

def rulesB (a : ArtFile) : Bool :=
  a.imageMetas.all (fun im => decide (im.paletteIndex < a.palettes.length) && im.scanLineByteWidth == roundUp4 im.width) &&
  a.animations.all (fun an => an.frames.all frameOk)

/-! ## reader -/

def byteAt (b : Bytes) (i : Nat) : UInt8 := b.getD i 0

/-- file order is blue, green, red, alpha; `ReadPalette` swaps red and blue after the block read -/
def colorOfFile (b : Bytes) : Color := ⟨byteAt b 2, byteAt b 1, byteAt b 0, byteAt b 3⟩
def colorToFile (c : Color) : Bytes := [c.blue, c.green, c.red, c.alpha]
def colorP : Parser Color := Parser.map (Parser.take 4) colorOfFile

/-- `PaletteHeader::Validate`: three tags, then `overall.length == 8 + (head.length + 4) + 4 + (data.length + 4)` in `size_t` -/
def paletteHeaderOk (h : Bytes) : Bool :=
  h.take 4 == tagPPAL && (h.drop 8).take 4 == tagHead && (h.drop 20).take 4 == tagData &&
  decU32 (h.drop 4) == 8 + (decU32 (h.drop 12) + 4) + 4 + (decU32 (h.drop 24) + 4)

/-- one palette: 28-byte header (kept, the in-memory object drops it), 256 colours -/
def paletteP : Parser (Bytes × Palette) :=
  Parser.bind (Parser.take 28) fun h => Parser.bind (Parser.guard (paletteHeaderOk h)) fun _ => Parser.bind (Parser.many colorP 256) fun cs => Parser.pure (h, cs)

def imageOfBytes (b : Bytes) : ImageMeta :=
  { scanLineByteWidth := decU32 b, pixelDataOffset := decU32 (b.drop 4), height := decU32 (b.drop 8),
    width := decU32 (b.drop 12), type := decU16 (b.drop 16), paletteIndex := decU16 (b.drop 18) }
def imageP : Parser ImageMeta := Parser.map (Parser.take 20) imageOfBytes

def layerOfBytes (b : Bytes) : Layer :=
  { bitmapIndex := decU16 b, unknown := (byteAt b 2).toNat, frameIndex := (byteAt b 3).toNat,
    px := decU16 (b.drop 4), py := decU16 (b.drop 6) }
def layerP : Parser Layer := Parser.map (Parser.take 8) layerOfBytes

def ucOfBytes (b : Bytes) : UnknownContainer :=
  { u1 := decU32 b, u2 := decU32 (b.drop 4), u3 := decU32 (b.drop 8), u4 := decU32 (b.drop 12) }
def ucP : Parser UnknownContainer := Parser.map (Parser.take 16) ucOfBytes

/-- the two optional bytes behind a `LayerMetadata` whose flag is set (zero otherwise: `ReadFrame` clears them first) -/
def optP (flag : Bool) : Parser (Nat × Nat) :=
  if flag then Parser.bind Parser.u8 fun x => Parser.bind Parser.u8 fun y => Parser.pure (x, y) else Parser.pure (0, 0)

def metaOfByte (m : Nat) : LayerMeta := ⟨m % 128, m / 128 == 1⟩
def metaToByte (m : LayerMeta) : Nat := m.count + 128 * m.flag.toNat

def frameP : Parser Frame :=
  Parser.bind Parser.u8 fun m => Parser.bind Parser.u8 fun ub =>
  Parser.bind (optP (metaOfByte m).flag) fun o12 =>
  Parser.bind (optP (metaOfByte ub).flag) fun o34 =>
  Parser.bind (Parser.many layerP (metaOfByte m).count) fun ls =>
  Parser.pure ⟨metaOfByte m, metaOfByte ub, o12.1, o12.2, o34.1, o34.2, ls⟩

def animOfParts (hd : Bytes) (frs : List Frame) (ucs : List UnknownContainer) : Animation :=
  { unknown := decU32 hd, x1 := decU32 (hd.drop 4), y1 := decU32 (hd.drop 8), x2 := decU32 (hd.drop 12),
    y2 := decU32 (hd.drop 16), dx := decU32 (hd.drop 20), dy := decU32 (hd.drop 24), unknown2 := decU32 (hd.drop 28),
    frames := frs, unknownContainer := ucs }

/-- `ReadAnimation`: 32 bytes of fixed fields and the frame count (five reads, no decision between them), the frames,
    the size-prefixed unknown container; each `resize` is an allocation of attacker-chosen size -/
def animP : Parser Animation :=
  Parser.bind (Parser.take 36) fun hd =>
  Parser.bind (Parser.guard (fits (decU32 (hd.drop 32)) Gen.Layout.size_Frame) .alloc) fun _ =>
  Parser.bind (Parser.many frameP (decU32 (hd.drop 32))) fun frs =>
  Parser.bind Parser.u32 fun nuc =>
  Parser.bind (Parser.guard (fits (nuc) Gen.Layout.size_UnknownContainer) .alloc) fun _ =>
  Parser.bind (Parser.many ucP nuc) fun ucs =>
  Parser.pure (animOfParts hd frs ucs)

def tagOk (sh : Bytes) : Bool := sh.take 4 == tagCPAL
def imagesOk (np : Nat) (ims : List ImageMeta) : Bool := ims.all (imageOk np)
/-- `VerifyCountsMatchHeader` (the third comparison there is between a value and itself) -/
def totalsOk (ans : List Animation) (tot : Bytes) : Bool :=
  totalFrames ans == decU32 tot && totalLayers ans == decU32 (tot.drop 4)

/-- `ArtFile::Read`: palettes, image table (validated at once), animation totals, animations, totals cross-check.
    Returns the palette headers as read next to the object (the object itself does not keep them). -/
def readFull : Parser (List Bytes × ArtFile) :=
  Parser.bind (Parser.take 8) fun sh =>
  Parser.bind (Parser.guard (tagOk sh)) fun _ =>
  Parser.bind (Parser.guard (fits (decU32 (sh.drop 4)) Gen.Layout.size_Palette8Bit) .alloc) fun _ =>
  Parser.bind (Parser.many paletteP (decU32 (sh.drop 4))) fun hps =>
  Parser.bind Parser.u32 fun ni =>
  Parser.bind (Parser.guard (fits (ni) Gen.Layout.size_ImageMeta) .alloc) fun _ =>
  Parser.bind (Parser.many imageP ni) fun ims =>
  Parser.bind (Parser.guard (imagesOk hps.length ims)) fun _ =>
  Parser.bind Parser.u32 fun na =>
  Parser.bind (Parser.guard (fits (na) Gen.Layout.size_Animation) .alloc) fun _ =>
  Parser.bind (Parser.take 12) fun tot =>
  Parser.bind (Parser.many animP na) fun ans =>
  Parser.bind (Parser.guard (totalsOk ans tot)) fun _ =>
  Parser.pure (hps.map (·.1), ⟨hps.map (·.2), ims, ans, decU32 (tot.drop 8)⟩)

/-- the object `ArtFile::Read` returns (trailing bytes are not looked at) -/
def read (b : Bytes) : Except Err ArtFile :=
  match readFull b with
  | .ok ((_, a), _) => .ok a
  | .error e => .error e

/-- number of bytes `ArtFile::Read` consumes -/
def consumed (b : Bytes) : Nat :=
  match readFull b with
  | .ok (_, rest) => b.length - rest.length
  | .error _ => 0

/-! ## writer -/

/-- `PaletteHeader::CreatePaletteHeader()` -/
def canonicalPaletteHeader : Bytes :=
  tagPPAL ++ encU32 1048 ++ tagHead ++ encU32 4 ++ encU32 1 ++ tagData ++ encU32 1024

def encPalette (p : Palette) : Bytes := p.flatMap colorToFile

def encImage (im : ImageMeta) : Bytes :=
  encU32 im.scanLineByteWidth ++ encU32 im.pixelDataOffset ++ encU32 im.height ++ encU32 im.width ++
  encU16 im.type ++ encU16 im.paletteIndex

def encLayer (l : Layer) : Bytes :=
  encU16 l.bitmapIndex ++ encU8 l.unknown ++ encU8 l.frameIndex ++ encU16 l.px ++ encU16 l.py

def encUC (c : UnknownContainer) : Bytes := encU32 c.u1 ++ encU32 c.u2 ++ encU32 c.u3 ++ encU32 c.u4

def encOpt (flag : Bool) (x y : Nat) : Bytes := if flag then encU8 x ++ encU8 y else []

/-- `WriteFrame` without its check -/
def encFrame (f : Frame) : Bytes :=
  encU8 (metaToByte f.layerMeta) ++ encU8 (metaToByte f.unknownBits) ++
  encOpt f.layerMeta.flag f.optional1 f.optional2 ++ encOpt f.unknownBits.flag f.optional3 f.optional4 ++
  f.layers.flatMap encLayer

/-- `ArtFile::WriteFrame`: the recorded 7-bit count must equal the number of layers -/
def writeFrame (f : Frame) : Except Err Bytes :=
  if f.layerMeta.count ≠ f.layers.length then .error .refused else .ok (encFrame f)

def writeFrames : List Frame → Except Err Bytes
  | [] => .ok []
  | f :: fs =>
    match writeFrame f with
    | .error e => .error e
    | .ok b => match writeFrames fs with
      | .error e => .error e
      | .ok bs => .ok (b ++ bs)

def encAnimHead (an : Animation) : Bytes :=
  encU32 an.unknown ++ encU32 an.x1 ++ encU32 an.y1 ++ encU32 an.x2 ++ encU32 an.y2 ++ encU32 an.dx ++ encU32 an.dy ++
  encU32 an.unknown2

/-- `ArtFile::WriteAnimation` -/
def writeAnim (an : Animation) : Except Err Bytes :=
  if an.frames.length > M32 then .error .refused else
  match writeFrames an.frames with
  | .error e => .error e
  | .ok fs =>
    if an.unknownContainer.length > M32 then .error .refused else
    .ok (encAnimHead an ++ encU32 an.frames.length ++ fs ++ encU32 an.unknownContainer.length ++
         an.unknownContainer.flatMap encUC)

def writeAnims : List Animation → Except Err Bytes
  | [] => .ok []
  | an :: ans =>
    match writeAnim an with
    | .error e => .error e
    | .ok b => match writeAnims ans with
      | .error e => .error e
      | .ok bs => .ok (b ++ bs)

/-- `ArtFile::Write(Stream::Writer&)`: bytes handed to the writer on success -/
def write (a : ArtFile) : Except Err Bytes :=
  if !(a.imageMetas.all (imageOk a.palettes.length)) then .error .format else
  if a.palettes.length > M32 then .error .refused else
  if a.imageMetas.length > M32 then .error .refused else
  if a.animations.length > M32 then .error .refused else
  if totalFrames a.animations > M32 then .error .refused else
  if totalLayers a.animations > M32 then .error .refused else
  match writeAnims a.animations with
  | .error e => .error e
  | .ok ans =>
    .ok (tagCPAL ++ encU32 a.palettes.length ++ a.palettes.flatMap (fun p => canonicalPaletteHeader ++ encPalette p) ++
         encU32 a.imageMetas.length ++ a.imageMetas.flatMap encImage ++
         encU32 a.animations.length ++ encU32 (totalFrames a.animations) ++ encU32 (totalLayers a.animations) ++
         encU32 a.unknownAnimationCount ++ ans)

/-! ## frozen format description (written from the format, not from the writer above) -/
namespace Spec

/-- a section header: four tag characters and a 32-bit little-endian length -/
def sect (tag : Bytes) (len : Nat) : Bytes := tag ++ encU32 len

/-- palette block: `PPAL` section of 1048 bytes = `head` section (4 bytes: tag count 1) + `data` section (1024 bytes) -/
def paletteBlock (p : Palette) : Bytes :=
  sect [0x50, 0x50, 0x41, 0x4C] 1048 ++ sect [0x68, 0x65, 0x61, 0x64] 4 ++ encU32 1 ++
  sect [0x64, 0x61, 0x74, 0x61] 1024 ++ p.flatMap (fun c => [c.blue, c.green, c.red, c.alpha])

/-- 20-byte image record -/
def imageRecord (im : ImageMeta) : Bytes :=
  encU32s [im.scanLineByteWidth, im.pixelDataOffset, im.height, im.width] ++ encU16s [im.type, im.paletteIndex]

def layerRecord (l : Layer) : Bytes := encU16 l.bitmapIndex ++ [UInt8.ofNat l.unknown, UInt8.ofNat l.frameIndex] ++ encU16s [l.px, l.py]

/-- one byte: 7-bit count in the low bits, "optional data follows" in the top bit -/
def metaByte (m : LayerMeta) : UInt8 := UInt8.ofNat (m.count % 128 + (if m.flag then 128 else 0))

def frameBlock (f : Frame) : Bytes :=
  [metaByte f.layerMeta, metaByte f.unknownBits] ++
  (if f.layerMeta.flag then [UInt8.ofNat f.optional1, UInt8.ofNat f.optional2] else []) ++
  (if f.unknownBits.flag then [UInt8.ofNat f.optional3, UInt8.ofNat f.optional4] else []) ++
  f.layers.flatMap layerRecord

def animBlock (an : Animation) : Bytes :=
  encU32s [an.unknown, an.x1, an.y1, an.x2, an.y2, an.dx, an.dy, an.unknown2] ++
  encU32 an.frames.length ++ an.frames.flatMap frameBlock ++
  encU32 an.unknownContainer.length ++ an.unknownContainer.flatMap (fun c => encU32s [c.u1, c.u2, c.u3, c.u4])

/-- the PRT file of a structure -/
def encode (a : ArtFile) : Bytes :=
  sect [0x43, 0x50, 0x41, 0x4C] a.palettes.length ++ a.palettes.flatMap paletteBlock ++
  encU32 a.imageMetas.length ++ a.imageMetas.flatMap imageRecord ++
  encU32s [a.animations.length, totalFrames a.animations, totalLayers a.animations, a.unknownAnimationCount] ++
  a.animations.flatMap animBlock

end Spec

/-! ## representable structures: every field fits its C++ type, every container fits its count field and memory -/

def LayerMeta.Rep (m : LayerMeta) : Prop := m.count < 128
def Layer.Rep (l : Layer) : Prop :=
  l.bitmapIndex < 65536 ∧ l.unknown < 256 ∧ l.frameIndex < 256 ∧ l.px < 65536 ∧ l.py < 65536
/-- optional bytes are only present in memory when their flag is set (`ReadFrame` zeroes them otherwise) -/
def Frame.Rep (f : Frame) : Prop :=
  f.layerMeta.Rep ∧ f.unknownBits.Rep ∧ f.optional1 < 256 ∧ f.optional2 < 256 ∧ f.optional3 < 256 ∧ f.optional4 < 256 ∧
  (f.layerMeta.flag = false → f.optional1 = 0 ∧ f.optional2 = 0) ∧
  (f.unknownBits.flag = false → f.optional3 = 0 ∧ f.optional4 = 0) ∧
  (∀ l ∈ f.layers, l.Rep)
def UnknownContainer.Rep (c : UnknownContainer) : Prop := c.u1 < W32 ∧ c.u2 < W32 ∧ c.u3 < W32 ∧ c.u4 < W32
def Animation.Rep (an : Animation) : Prop :=
  an.unknown < W32 ∧ an.x1 < W32 ∧ an.y1 < W32 ∧ an.x2 < W32 ∧ an.y2 < W32 ∧ an.dx < W32 ∧ an.dy < W32 ∧ an.unknown2 < W32 ∧
  an.frames.length < W32 ∧ an.frames.length * Gen.Layout.size_Frame ≤ allocCap ∧ (∀ f ∈ an.frames, f.Rep) ∧
  an.unknownContainer.length < W32 ∧ an.unknownContainer.length * Gen.Layout.size_UnknownContainer ≤ allocCap ∧
  (∀ c ∈ an.unknownContainer, c.Rep)
def ImageMeta.Rep (im : ImageMeta) : Prop :=
  im.scanLineByteWidth < W32 ∧ im.pixelDataOffset < W32 ∧ im.height < W32 ∧ im.width < W32 ∧ im.type < 65536 ∧
  im.paletteIndex < 65536
def ArtFile.Rep (a : ArtFile) : Prop :=
  a.palettes.length < W32 ∧ a.palettes.length * Gen.Layout.size_Palette8Bit ≤ allocCap ∧ (∀ p ∈ a.palettes, p.length = 256) ∧
  a.imageMetas.length < W32 ∧ a.imageMetas.length * Gen.Layout.size_ImageMeta ≤ allocCap ∧ (∀ im ∈ a.imageMetas, im.Rep) ∧
  a.animations.length < W32 ∧ a.animations.length * Gen.Layout.size_Animation ≤ allocCap ∧ (∀ an ∈ a.animations, an.Rep) ∧
  totalFrames a.animations < W32 ∧ totalLayers a.animations < W32 ∧ a.unknownAnimationCount < W32

/-- `Spec.WF`: representable and satisfying the cross-field rules -/
def Spec.WF (a : ArtFile) : Prop := a.Rep ∧ rules a

/-! ## follow-up operations with explicit faults -/

inductive Fault where
  | vectorIndex   -- `operator[]` outside a vector / array
  | oobRead       -- raw read outside a buffer
  deriving DecidableEq, Repr

/-- outer layer: memory fault / undefined behaviour; inner layer: ordinary C++ exception -/
abbrev FaultM (α : Type) := Except Fault (Except Err α)

/-- `v[i]` -/
def idx {α : Type} (v : List α) (i : Nat) : Except Fault α :=
  match v[i]? with
  | some x => .ok x
  | none => .error .vectorIndex

/-- `len` bytes at `p + off` of a buffer of `b.length` bytes -/
def slice (b : Bytes) (off len : Nat) : Except Fault Bytes :=
  if off + len ≤ b.length then .ok ((b.drop off).take len) else .error .oobRead

/-- `ArtFile::VerifyImageIndexInBounds` -/
def verifyIndex (a : ArtFile) (i : Nat) : Except Err Unit :=
  if i ≥ a.imageMetas.length then .error .bounds else .ok ()

def isShadow (im : ImageMeta) : Bool := im.type / Gen.Layout.mask_ImageType_isShadow % 2 == 1

def encColorMem (c : Color) : Bytes := [c.red, c.green, c.blue, c.alpha]

/-- rows of `BitmapFile::WritePixels`: `bytesPerRow` bytes at `pixels.data() + y*pitch`, then the padding -/
def bmpRows (pixels : Bytes) (pitch rowBytes : Nat) : Nat → Nat → Except Fault Bytes
  | _, 0 => .ok []
  | y, n + 1 =>
    match slice pixels (y * pitch) rowBytes with
    | .error f => .error f
    | .ok row => match bmpRows pixels pitch rowBytes (y + 1) n with
      | .error f => .error f
      | .ok rest => .ok (row ++ zeros (pitch - rowBytes) ++ rest)

/-- `BitmapFile::CreateIndexed(bitCount, width, -height, palette, pixels).WriteIndexed(file)` for
    `width, height ≤ INT32_MAX`, `bitCount ∈ {1, 8}`, `|palette| = 2^bitCount` (what `ExtractImage` passes) -/
def bmpEmit (bitCount width height : Nat) (palette : List Color) (pixels : Bytes) : FaultM Bytes :=
  let rowBytes := (width * bitCount + 7) / 8
  let pitch := (rowBytes + 3) / 4 * 4
  let pixelOffset := 14 + 40 + palette.length * 4
  if pixelOffset + pitch * height > M32 then .ok (.error .refused) else
  if pixels.length ≠ pitch * height then .ok (.error .format) else
  match bmpRows pixels pitch rowBytes 0 height with
  | .error f => .error f
  | .ok rows =>
    .ok (.ok ([0x42, 0x4D] ++ encU32 (pixelOffset + pitch * height) ++ encU16 0 ++ encU16 0 ++ encU32 pixelOffset ++
      encU32 40 ++ encU32 width ++ encU32 (ofI32 (-(height : Int))) ++ encU16 1 ++ encU16 bitCount ++ encU32 0 ++ encU32 0 ++
      encU32 0 ++ encU32 0 ++ encU32 0 ++ encU32 0 ++ palette.flatMap encColorMem ++ rows))

/-- `SpriteLoader::ExtractImage(index, out)` against the pixel file `pix`: the bytes of the bitmap written -/
def extractImage (a : ArtFile) (i : Nat) (pix : Bytes) : FaultM Bytes :=
  match verifyIndex a i with
  | .error e => .ok (.error e)
  | .ok _ =>
  match idx a.imageMetas i with                                   -- `artFile->imageMetas[index]`
  | .error f => .error f
  | .ok im =>
  match idx a.palettes im.paletteIndex with                       -- `artFile->palettes[imageMeta.paletteIndex]`
  | .error f => .error f
  | .ok pal =>
  let bitCount := if isShadow im then 1 else 8
  if 2 ^ bitCount > pal.length then .error .oobRead else          -- `std::copy(begin, begin + 2^bitCount, …)`
  let start := im.pixelDataOffset + 14 + 40 + 1024
  let len := im.scanLineByteWidth * im.height
  if len > W64 - 1 - start then .ok (.error .bounds) else         -- `SliceReader` constructor
  if start + len > pix.length then .ok (.error .bounds) else      -- `SliceReader::Initialize`
  match slice pix start len with                                  -- `(*pixels).Read(pixelContainer)`
  | .error f => .error f
  | .ok pixels =>
  if im.height > 2147483647 then .ok (.error .refused) else
  if im.width > 2147483647 then .ok (.error .refused) else
  bmpEmit bitCount im.width im.height (pal.take (2 ^ bitCount)) pixels

/-- `SpriteLoader::FrameCount / LayerCount` (unchecked `operator[]` in the C++) -/
def frameCount (a : ArtFile) (i : Nat) : Except Fault Nat :=
  match idx a.animations i with
  | .error f => .error f
  | .ok an => .ok an.frames.length
def layerCount (a : ArtFile) (i j : Nat) : Except Fault Nat :=
  match idx a.animations i with
  | .error f => .error f
  | .ok an => match idx an.frames j with
    | .error f => .error f
    | .ok fr => .ok fr.layers.length

end Op2.Prt
