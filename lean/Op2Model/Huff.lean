import Op2Model.Basic
/-!
# Op2Model.Huff — the adaptive Huffman tree of `AdaptiveHuffmanTree.cpp` (C15, C04)

The tree is modelled at *function level*: `link`, `cnt`, `par` are total functions `Nat → Nat` and every array store
of the C++ is a point update `upd`.  (Proofs about nested array updates do not scale; on functions they do.)
`link i` = `linkOrData[i]`, `cnt i` = `subtreeCount[i]`, `par j` = `parentIndex[j]` (indices `n ≤ j < n+T` are the
"parent of code" entries).  The driver snapshots the three functions into arrays between updates purely for speed.
-/
namespace Op2.Huff

def upd (f : Nat → Nat) (i v : Nat) : Nat → Nat := fun j => if j = i then v else f j
theorem upd_apply (f i v j) : upd f i v j = if j = i then v else f j := rfl

structure TF where
  T : Nat
  link : Nat → Nat
  cnt : Nat → Nat
  par : Nat → Nat

namespace TF
def n (t : TF) : Nat := 2 * t.T - 1
def root (t : TF) : Nat := t.n - 1

def swap (t : TF) (a b : Nat) : TF :=
  let la := t.link a
  let lb := t.link b
  let par := upd t.par la b
  let par := if la < t.n then upd par (la + 1) b else par
  let par := upd par lb a
  let par := if lb < t.n then upd par (lb + 1) a else par
  { t with cnt := upd (upd t.cnt a (t.cnt b)) b (t.cnt a),
           par := par,
           link := upd (upd t.link a lb) b la }

/-- block leader scan: `while cnt[c] > cnt[b+1]: b++`, fuelled -/
def scan (t : TF) (c b : Nat) : Nat → Nat
  | 0 => b
  | fuel + 1 => if t.cnt c > t.cnt (b + 1) then scan t c (b + 1) fuel else b

def bump (t : TF) (i : Nat) : TF := { t with cnt := upd t.cnt i (t.cnt i + 1) }

def climb (t : TF) (c : Nat) : Nat → TF
  | 0 => t
  | fuel + 1 =>
    if c = t.root then t else
      let b := scan t c c t.n
      let t1 := t.swap c b
      let p := t1.par b
      climb (t1.bump p) p fuel

def update (t : TF) (code : Nat) : TF :=
  let c := t.par (code + t.n)
  climb (t.bump c) c t.n

/-- leaf-to-root branch bits (`nodeIndex & 1`), as `GetEncodedBitString` collects them (after the D10 repair it
    starts at the leaf that holds the code) -/
def up (t : TF) (j : Nat) : Nat → List Nat
  | 0 => []
  | fuel + 1 => if j = t.root then [] else (j % 2) :: up t (t.par j) fuel

/-- the decoder's walk: `GetChildNode(node, bit) = linkOrData[node] + bit` -/
def walk (t : TF) (node : Nat) (bits : List Nat) : Nat := bits.foldl (fun nd b => t.link nd + b) node

/-- root-to-leaf bit list for `code` -/
def encode (t : TF) (code : Nat) : List Nat := (up t (t.par (code + t.n)) t.n).reverse

/-- counts the constructor computes: leaves 1, inner node = sum of its two children -/
def cntI (T : Nat) (i : Nat) : Nat :=
  if _h : i < T then 1
  else if _h2 : i < 2 * T - 1 then cntI T (2 * (i - T)) + cntI T (2 * (i - T) + 1)
  else 0
termination_by i
decreasing_by all_goals omega

/-- the tree built by `AdaptiveHuffmanTree::AdaptiveHuffmanTree(T)` -/
def init (T : Nat) : TF where
  T := T
  link := fun i => if i < T then i + (2 * T - 1) else 2 * (i - T)
  cnt := cntI T
  par := fun j => if j < 2 * T - 1 then j / 2 + T else j - (2 * T - 1)

/-- largest count a `NodeType` (unsigned short) can hold -/
def maxCount : Nat := 65535

/-- `UpdateCodeCount` with its argument and capacity checks (the capacity check is the D11 repair):
    an out-of-range symbol or a full root counter is refused and the tree is left as it was -/
def updateChecked (t : TF) (code : Nat) : Except Err TF :=
  if code ≥ t.T then .error .refused
  else if t.cnt t.root ≥ maxCount then .error .refused
  else .ok (t.update code)

/-- `IsLeaf` -/
def isLeaf (t : TF) (i : Nat) : Bool := t.link i ≥ t.n
/-- `GetNodeData` -/
def nodeData (t : TF) (i : Nat) : Nat := t.link i - t.n

end TF
end Op2.Huff

/-!
## An independent reference: the classic LZHUF `update`

Written from the textbook routine (`freq / prnt / son`; increment at the loop head, exchange only when the order is
disturbed, search for the end of the block from `c + 1`, stores in LZHUF's order), on the same three tables so that
shapes can be compared.  `Op2Proofs.Props.C15.C15_ref` proves it equal to `TF.update` on every well-formed tree.
-/
namespace Op2.Huff.Ref
open Op2.Huff Op2.Huff.TF

/-- LZHUF: `freq[c] = freq[l]; freq[l] = k; i = son[c]; prnt[i] = l; if (i < T) prnt[i+1] = l; j = son[l]; son[l] = i;
    prnt[j] = c; if (j < T) prnt[j+1] = c; son[c] = j` -/
def exchange (t : TF) (c l : Nat) : TF :=
  let k := t.cnt c
  let cnt := upd (upd t.cnt c (t.cnt l)) l k
  let i := t.link c
  let par := upd t.par i l
  let par := if i < t.n then upd par (i + 1) l else par
  let j := t.link l
  let link := upd t.link l i
  let par := upd par j c
  let par := if j < t.n then upd par (j + 1) c else par
  let link := upd link c j
  { t with cnt := cnt, par := par, link := link }

/-- `while (k > freq[l + 1]) l++` -/
def find (t : TF) (k l : Nat) : Nat → Nat
  | 0 => l
  | fuel + 1 => if k > t.cnt (l + 1) then find t k (l + 1) fuel else l

def climb (t : TF) (c : Nat) : Nat → TF
  | 0 => t
  | fuel + 1 =>
    let t := t.bump c                         -- k = ++freq[c]
    if c = t.root then t else
    if t.cnt c > t.cnt (c + 1) then
      let l := find t (t.cnt c) (c + 1) (t.n - 1)
      let t := exchange t c l
      climb t (t.par l) fuel
    else climb t (t.par c) fuel

def update (t : TF) (code : Nat) : TF := climb t (t.par (code + t.n)) (t.n + 1)

end Op2.Huff.Ref
