import Op2Model.Basic
import Op2Model.Parser
import Op2Model.Str
import Op2Model.Path
import Op2Model.Bits
import Op2Model.Tile
import Op2Model.Stream
import Op2Model.Prt
