import Driver.Util
/-! group `vol` (C01, C02, C05_vol, C20_vol), mirrored from harness/drv/vol.cpp -/
namespace Driver
open Op2 Op2.Vol
namespace VolDrv

def content? (s : String) : Option Vol.Content :=
  match s.splitOn ":" with
  | ["z", n] => do let n ← n.toNat?; pure (.zeros n)
  | _ => do let b ← data? s; pure (.bytes b)

def pairs? : List String → Option (List (String × String))
  | [] => some []
  | a :: b :: r => do let t ← pairs? r; pure ((a, b) :: t)
  | _ => none

def flipB (b : UInt8) : UInt8 :=
  if 97 ≤ b.toNat ∧ b.toNat ≤ 122 then UInt8.ofNat (b.toNat - 32)
  else if 65 ≤ b.toNat ∧ b.toNat ≤ 90 then UInt8.ofNat (b.toNat + 32) else b
def lowerB (b : UInt8) : UInt8 := if 65 ≤ b.toNat ∧ b.toNat ≤ 90 then UInt8.ofNat (b.toNat + 32) else b
def upperB' (b : UInt8) : UInt8 := if 97 ≤ b.toNat ∧ b.toNat ≤ 122 then UInt8.ofNat (b.toNat - 32) else b

def showE : E → String
  | .err .alloc => "err:alloc"
  | .err _ => "err"
  | .fault .oobWrite => "fault:model-oob-write"
  | .fault .vecIndex => "fault:model-vector-index"

def showM {α : Type} (f : α → String) : M α → String
  | .ok a => f a
  | .error e => showE e

def volPack (out : Bytes) (files : List InFile) : String :=
  match create out files with
  | .error _ => "err pre=same"
  | .ok arch =>
    match Vol.open arch with
    | .error e => s!"ok {showBytes arch} pre=same reopen:{showE e}"
    | .ok v =>
      let member (i : Nat) : String :=
        match v.name i with
        | .error e => showE e
        | .ok name =>
          let byName (q : Bytes) : M Bytes := match v.index q with | .ok j => v.stream j | .error e => .error e
          let exName (q : Bytes) : M Bytes :=
            match v.index q with
            | .ok j => (match v.extract j with | .ok (some b) => .ok b | .ok none => .error (.err .format) | .error e => .error e)
            | .error e => .error e
          let exIdx : M Bytes := match v.extract i with | .ok (some b) => .ok b | .ok none => .error (.err .format) | .error e => .error e
          joinWith ":" [hexOfBytes name, showM toString (v.size i), showM toString (v.kind i),
            showM showBytes (v.stream i), showM showBytes (byName (name.map flipB)),
            showM showBytes exIdx, showM showBytes (exName (name.map upperB')),
            showM toString (v.index (name.map lowerB)), showM toString (v.index (name.map upperB')),
            showM (fun b => showBool b) (v.contains (name.map flipB))]
      let ms := (List.range v.count).map member
      joinWith " " ([s!"ok {showBytes arch} pre=same n={v.count}"] ++ ms)

def op? (s : String) : Option Op :=
  match s.toList with
  | ['c'] => some .count
  | 'n' :: r => do let i ← (String.ofList r).toNat?; pure (.name i)
  | 's' :: r => do let i ← (String.ofList r).toNat?; pure (.size i)
  | 'k' :: r => do let i ← (String.ofList r).toNat?; pure (.kind i)
  | 'x' :: r => do let q ← hex? (String.ofList r); pure (.index q)
  | 'h' :: r => do let q ← hex? (String.ofList r); pure (.contains q)
  | 'r' :: r => do let i ← (String.ofList r).toNat?; pure (.stream i)
  | 'q' :: r => do let q ← hex? (String.ofList r); pure (.streamByName q)
  | 'e' :: r => do let i ← (String.ofList r).toNat?; pure (.extract i)
  | _ => none

def showRes (op : Op) : Res → String
  | .num n => toString n
  | .bytes b => (match op with | .name _ => hexOfBytes b | _ => showBytes b)
  | .lzh => "lzh"
  | .fail e => showE e

def volOpen (bytes : Bytes) (ops : List Op) : String :=
  match Vol.open bytes with
  | .error (.err .alloc) => "err:alloc"
  | .error e => "open:" ++ showE e
  | .ok v =>
    let rs := Obj.run { view := v, rpos := 0 } ops
    -- an attacker-sized allocation in the middle of a call sequence ends the case, as the capped allocator does
    if rs.any (fun r => match r with | .fail (.err .alloc) => true | _ => false) then "err:alloc"
    else joinWith "," ("open:ok" :: (List.zipWith showRes ops rs))

def member? : List String → Option (List Spec.Member)
  | [] => some []
  | n :: p :: s :: c :: r => do
      let n ← hex? n; let p ← data? p; let s ← s.toNat?; let c ← c.toNat?; let t ← member? r
      pure ({ name := n, payload := p, size := s, comp := c } :: t)
  | _ => none

end VolDrv
open VolDrv in
def handleVol (cmd : String) (args : List String) : Option String :=
  match cmd, args with
  | "vol.pack", out :: _pre :: rest => do
      let out ← hex? out
      let ps ← pairs? rest
      let files ← ps.mapM (fun (p, c) => do let p ← hex? p; let c ← content? c; pure ({ path := p, content := c } : InFile))
      pure (volPack out files)
  | "vol.open", [bytes, mode, ops] => do
      let bytes ← data? bytes
      if mode ≠ "L" ∧ mode ≠ "F" then none
      let ops ← if ops = "-" then some [] else (ops.splitOn ",").mapM op?
      pure (volOpen bytes ops)
  | "vol.big", pre :: rest => do
      let ps ← pairs? rest
      let files ← ps.mapM (fun (n, s) => do
        let n ← hex? n; let s ← s.toNat?
        pure ({ path := asciiBytes "in/" ++ n, content := .zeros s } : InFile))
      pure (match plan (asciiBytes "out.vol") files with
        | .ok _ => "ok"
        | .error _ => if pre = "-" then "err dest=absent" else "err dest=same")
  | "vol.refenc", unused :: slack :: rest => do
      let unused ← unused.toNat?; let slack ← slack.toNat?
      let ms ← member? rest
      let d : Spec.Desc := { members := ms, unused := unused, slack := slack }
      let b := Spec.refEncode d
      pure s!"{showBytes b} wf={showBool d.wf} strict={showBool d.strict} swf={showBool (Spec.strictWF b)}"
  | "vol.strictwf", [bytes] => do
      let bytes ← data? bytes
      pure (showBool (Spec.strictWF bytes))
  | "vol.lookup", q :: names => do
      let q ← hex? q; let names ← names.mapM hex?
      pure (match Spec.lookup names q with | some i => toString i | none => "none")
  | _, _ => none
end Driver
