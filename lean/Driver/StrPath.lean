import Driver.Util
/-! groups `str`, `path`, `bits`, `tile` (C19, C16) -/
namespace Driver
open Op2

def handleStrPath (cmd : String) (args : List String) : Option String :=
  match cmd, args with
  | "str.lt", [a, b] => do let a ← hex? a; let b ← hex? b; pure (showBool (Str.ltCI a b))
  | "path.cmpfn", [a, b] => do let a ← hex? a; let b ← hex? b; pure (showBool (Str.ltCI (Path.getFilename a) (Path.getFilename b)))
  | "str.eq", [a, b] => do let a ← hex? a; let b ← hex? b; pure (showBool (Str.eqCI a b))
  | "str.upper", [a] => do let a ← hex? a; pure (hexOfBytes (Str.toUpper a))
  | "str.lower1", [a] => do let a ← nat? a; pure (toString (Str.lowerI (UInt8.ofNat a)))
  | "str.sort", xs => do
      let bs ← xs.mapM hex?
      pure (joinWith " " ((Str.sortCI id bs).map hexOfBytes))
  | "path.elems", [a] => do let a ← hex? a; pure (joinWith "," ((Path.elems a).map hexOfBytes))
  | "path.eq", [a, b] => do let a ← hex? a; let b ← hex? b; pure (showBool (Path.pathsAreEqual a b))
  | "path.rawEq", [a, b] => do let a ← hex? a; let b ← hex? b; pure (showBool (Path.pathEq a b))
  | "path.filename", [a] => do let a ← hex? a; pure (hexOfBytes (Path.getFilename a))
  | "path.ext", [a] => do let a ← hex? a; pure (hexOfBytes (Path.getFileExtension a))
  | "path.dir", [a] => do let a ← hex? a; pure (hexOfBytes (Path.getDirectory a))
  | "path.parent", [a] => do let a ← hex? a; pure (hexOfBytes (Path.parentPath a))
  | "path.generic", [a] => do let a ← hex? a; pure (hexOfBytes (Path.genericString a))
  | "path.relative", [a] => do let a ← hex? a; pure (hexOfBytes (Path.relativePath a))
  | "path.hasroot", [a] => do let a ← hex? a; pure (showBool (Path.hasRootComponent a))
  | "path.append", [a, b] => do let a ← hex? a; let b ← hex? b; pure (showExceptBytes (Path.xAppend a b))
  | "path.chext", [a, b] => do let a ← hex? a; let b ← hex? b; pure (hexOfBytes (Path.changeFileExtension a b))
  | "path.extmatch", [a, b] => do let a ← hex? a; let b ← hex? b; pure (showBool (Path.extensionMatches a b))
  | "path.fnappend", [a, b] => do
      let a ← hex? a; let b ← hex? b
      pure (match Path.xAppend a b with | .ok p => hexOfBytes (Path.getFilename p) | .error _ => "err")
  | "path.rejoin", [a] => do
      let a ← hex? a
      pure (match Path.xAppend (Path.getDirectory a) (Path.getFilename a) with
        | .ok p => showBool (Path.pathsAreEqual p a) | .error _ => "err")
  | "path.chextmatch", [f, e, e'] => do
      let f ← hex? f; let e ← hex? e; let e' ← hex? e'
      pure (showBool (Path.extensionMatches (Path.changeFileExtension f e) e'))
  | "bits.pow2", [v] => do let v ← nat? v; pure (showBool (Bits.isPow2 v))
  | "bits.log2", [v] => do let v ← nat? v; pure (toString (Bits.log2OfPow2 v))
  | _, _ => none

end Driver
