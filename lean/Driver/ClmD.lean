import Driver.Util
import Op2Model.Clm
/-! group `clm` (C03, C05 part clm, C20 part clm), mirrored from harness/drv/clm.cpp -/
namespace Driver
open Op2 Op2.Clm
namespace ClmDrv

/-- `<hex>[+<n zero bytes>]` -/
def content? (s : String) : Option Content :=
  match s.splitOn "+" with
  | [h] => do let b ← bytesOfHex h; pure ⟨b, 0⟩
  | [h, z] => do let b ← bytesOfHex h; let z ← z.toNat?; pure ⟨b, z⟩
  | _ => none

/-- `<relpath-hex>=<content>` -/
def fileArg? (s : String) : Option (Bytes × Content) :=
  match s.splitOn "=" with
  | [p, c] => do let p ← bytesOfHex p; let c ← content? c; pure (p, c)
  | _ => none

def safeRel (rel : Bytes) : Bool :=
  !rel.isEmpty && rel.head? != some 47 && rel.getLast? != some 47 && !rel.contains 0
    && !((rel.splitOn 47).any (· == [46, 46]))

def showClmRes : Except Err Bytes → String
  | .ok b => showBytes b
  | .error .alloc => "err:alloc"
  | .error _ => "err"

/-- an extracted WAV as `<everything before the payload, hex>/<payload>` -/
def showWav (w : Except Err Bytes) (size : Except Err Nat) : String :=
  match w, size with
  | .ok w, .ok n => if w.length < n then "short/" ++ showBytes w
                    else hexOfBytes (w.take (w.length - n)) ++ "/" ++ showBytes (w.drop (w.length - n))
  | .error .alloc, _ => "err:alloc"
  | _, _ => "err"

def bigStream : Nat := 268435456
def bigArchive : Nat := 67108864

def clmPack (files : List (Bytes × Content)) : String :=
  match create files with
  | .hang => "hang"
  | .err => "err"
  | .ok a =>
    if a.len > bigArchive then s!"ok-big {a.len}" else
    let bytes := a.toBytes
    match Clm.open bytes with
    | .error .alloc => "err:alloc"
    | .error _ => "err"
    | .ok v =>
      let members := (List.range v.count).map fun i =>
        let nm := match v.name i with | .ok n => hexOfBytes n | .error _ => "err"
        let sz := match v.size i with | .ok n => toString n | .error _ => "err"
        s!" {nm}|{sz}|{showClmRes (v.stream bytes i)}|{showWav (v.extractWav bytes i) (v.size i)}"
      s!"ok {showBytes bytes} {v.count}" ++ String.join members

def clmPackList (files : List (Bytes × Content)) : String :=
  match create files with
  | .hang => "hang"
  | .err => "err"
  | .ok a =>
    let bytes := a.toBytes
    match Clm.open bytes with
    | .error .alloc => "err:alloc"
    | .error _ => "err"
    | .ok v =>
      let members := (List.range v.count).map fun i =>
        let nm := match v.name i with | .ok n => hexOfBytes n | .error _ => "err"
        let sz := match v.size i with | .ok n => toString n | .error _ => "err"
        s!" {nm}|{sz}|{showClmRes (v.stream bytes i)}"
      s!"ok {v.count}" ++ String.join members

def safeName (n : Bytes) : Bool := !n.isEmpty && n != [46] && n != [46, 46] && !n.contains 47

/-- insertion sort of byte strings by unsigned lexicographic order (std::sort on std::string) and dedup -/
def bytesLt : Bytes → Bytes → Bool
  | [], [] => false
  | [], _ :: _ => true
  | _ :: _, [] => false
  | a :: as, b :: bs => if a < b then true else if b < a then false else bytesLt as bs

def insertSorted (x : Bytes) : List Bytes → List Bytes
  | [] => [x]
  | y :: ys => if bytesLt x y then x :: y :: ys else if x == y then y :: ys else y :: insertSorted x ys

def clmOp (v : View) (file : Bytes) (op : String) : Option String :=
  let k := op.take 1 |>.toString
  let rest := op.drop 1 |>.toString
  let sizeT (n : Nat) : Nat := n % W64     -- static_cast<std::size_t>
  match k with
  | "c" => if rest.isEmpty then some (toString v.count) else none
  | "n" => do let i ← rest.toNat?; pure (match v.name (sizeT i) with | .ok n => hexOfBytes n | .error _ => "err")
  | "z" => do let i ← rest.toNat?; pure (match v.size (sizeT i) with | .ok n => toString n | .error _ => "err")
  | "s" => do let i ← rest.toNat?; pure (showClmRes (v.stream file (sizeT i)))
  | "x" => do let i ← rest.toNat?; pure (showWav (v.extractWav file (sizeT i)) (v.size (sizeT i)))
  | "i" => do let n ← bytesOfHex rest; pure (match v.index n with | .ok i => toString i | .error _ => "err")
  | "h" => do let n ← bytesOfHex rest; pure (showBool (v.contains n))
  | "S" => do
      let n ← bytesOfHex rest
      pure (match v.index n with | .ok i => showClmRes (v.stream file i) | .error _ => "err")
  | "X" =>
      if !rest.isEmpty then none else
      let names := v.entries.map entryName
      if !(names.all safeName) then some "skip" else
      -- ExtractAllFiles stops at the first failing member; what is then on disk is not reported
      let results := (List.range v.count).map fun i => (entryName (v.entries.getD i ⟨[], 0, 0⟩), v.extractWav file i)
      if results.any (fun r => match r.2 with | .error _ => true | .ok _ => false) then some "err" else
      let uniq := names.foldr insertSorted []
      let lastOf (n : Bytes) : String :=
        match (results.filter (fun r => r.1 == n)).getLast? with
        | some (_, .ok b) => showBytes b
        | _ => "missing"
      some ("all" ++ String.join (uniq.map fun n => s!";{hexOfBytes n}={lastOf n}"))
  | _ => none

def clmOpen (c : Content) (ops : List String) : Option String :=
  let file := c.toBytes
  match Clm.open file with
  | .error .alloc => some "err:alloc"
  | .error _ => some "err"
  | .ok v => do
    let rs ← ops.mapM (clmOp v file)
    pure (joinWith "," rs ++ " fresh=1")

end ClmDrv
open ClmDrv in
def handleClm (cmd : String) (args : List String) : Option String :=
  match cmd, args with
  | "clm.pack", files => do
      let fs ← files.mapM fileArg?
      if !(fs.all (fun f => safeRel f.1)) then none else
      -- the C++ driver refuses to write the same path twice
      if (fs.map (·.1)).eraseDups.length != fs.length then none else
      pure (clmPack fs)
  | "clm.packbig", _secs :: files => do
      let _ ← _secs.toNat?
      let fs ← files.mapM fileArg?
      if !(fs.all (fun f => safeRel f.1)) then none else
      if (fs.map (·.1)).eraseDups.length != fs.length then none else
      pure (clmPack fs)
  | "clm.packlist", files => do
      let fs ← files.mapM fileArg?
      if !(fs.all (fun f => safeRel f.1)) then none else
      if (fs.map (·.1)).eraseDups.length != fs.length then none else
      pure (clmPackList fs)
  | "clm.open", [c, ops] => do
      let c ← content? c
      clmOpen c (ops.splitOn ",")
  | _, _ => none
end Driver
