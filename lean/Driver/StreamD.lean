import Driver.Util
import Op2Model.StreamSys
/-! groups `rd` / `wr` / `copy` (C12, C13, C14), mirrored from harness/drv/stream.cpp -/
namespace Driver
open Op2 Op2.Stream

def parseNats (s : String) : Option (List Nat) := (s.splitOn ":").mapM (·.toNat?)

def mkReader (backend : String) (data : Bytes) : Option (Except Err Rd) :=
  match backend.splitOn ":" with
  | ["mem"] | ["dyn"] => some (.ok (.mem { data := data, pos := 0 }))
  | ["file"] => some (.ok (.file { data := data, pos := 0 }))
  | ["mslice2", a, b] => do
      let a ← a.toNat?; let b ← b.toNat?
      pure ((MemR.slice2 { data := data, pos := 0 } a b).map Rd.mem)
  | ["mslice1", p, l] => do
      let p ← p.toNat?; let l ← l.toNat?
      pure (match MemR.seek { data := data, pos := 0 } p with
        | .error e => .error e
        | .ok m => (MemR.slice1 m l).map (fun x => Rd.mem x.1))
  | ["mss", a, b, c, d] => do
      let a ← a.toNat?; let b ← b.toNat?; let c ← c.toNat?; let d ← d.toNat?
      pure (match MemR.slice2 { data := data, pos := 0 } a b with
        | .error e => .error e
        | .ok m => (MemR.slice2 m c d).map Rd.mem)
  | ["fslice", a, b] => do
      let a ← a.toNat?; let b ← b.toNat?
      pure ((Slice.create fileWrapped { data := data, pos := 0 } a b).map Rd.fsl)
  | ["fss", a, b, c, d] => do
      let a ← a.toNat?; let b ← b.toNat?; let c ← c.toNat?; let d ← d.toNat?
      pure (match Slice.create fileWrapped { data := data, pos := 0 } a b with
        | .error e => .error e
        | .ok s => (Slice.slice2 fileWrapped s c d).map Rd.fsl)
  | ["fwrap", a, b, c, d] => do   -- SliceReader<FileSliceReader> around a file slice
      let a ← a.toNat?; let b ← b.toNat?; let c ← c.toNat?; let d ← d.toNat?
      pure (match Slice.create fileWrapped { data := data, pos := 0 } a b with
        | .error e => .error e
        | .ok s => (Slice.create fslW s c d).map Rd.fss)
  | _ => none

def allocCap : Nat := 268435456
def stringMax : Nat := 4611686018427387903      -- std::string::max_size(), libstdc++ LP64
def vec16Max : Nat := 4611686018427387903       -- std::vector<uint16_t>::max_size()

def showOut : Out → String
  | .bytes b => hexOfBytes b
  | .unit => "ok"
  | .err => "err"

def natTail (s : String) : Option Nat := (s.drop 1).toString.toNat?

/-- run one op token; returns the printed result and the new reader -/
def rdOp (r : Rd) (tok : String) : Option (String × Rd) :=
  let fin (o : Out × Rd) : Option (String × Rd) := some (showOut o.1, o.2)
  match tok.front with
  | 'r' => do fin (r.step (.read (← natTail tok)))
  | 'p' => do fin (r.step (.readPartial (← natTail tok)))
  | 'k' => do fin (r.step (.peek (← natTail tok)))
  | 's' => do fin (r.step (.seek (← natTail tok)))
  | 'f' => do fin (r.step (.fwd (← natTail tok)))
  | 'b' => do fin (r.step (.back (← natTail tok)))
  | 'B' => fin (r.step .seekBegin)
  | 'E' => fin (r.step .seekEnd)
  | 'u' => do
      let w ← natTail tok
      match r.read w with
      | .ok (b, r') => some (toString (leVal b), r')
      | .error _ => some ("err", r)
  | 'z' => do
      let m ← natTail tok
      -- fuel: at most min(m, bytes left) characters can be appended
      match readNT Rd.read (min m (r.len - r.pos + 1)) r [] with
      | .ok (b, r') => some (hexOfBytes b, r')
      | .error _ => some ("err", (r.step .seekEnd).2)   -- the failing helper has consumed the rest (not atomic)
  | 'q' => do
      let w ← natTail tok
      match readPrefixed Rd.read w false 1 stringMax allocCap r with
      | .ok (b, r') => some (showBytes b, r')
      | .error .alloc => some ("err:alloc", r)
      | .error _ => some ("err", r)
  | 'i' => do
      let w ← natTail tok
      match readPrefixed Rd.read w true 1 stringMax allocCap r with
      | .ok (b, r') => some (showBytes b, r')
      | .error .alloc => some ("err:alloc", r)
      | .error _ => some ("err", r)
  | 'v' => do
      let w ← natTail tok
      match readPrefixed Rd.read w false 2 vec16Max allocCap r with
      | .ok (b, r') => some (showBytes b, r')
      | .error .alloc => some ("err:alloc", r)
      | .error _ => some ("err", r)
  | 'W' => do
      let n ← natTail tok
      match r.read (2 * n) with
      | .ok (b, r') => some (showBytes b, r')
      | .error _ => some ("err", r)
  | 'X' => do
      let n ← natTail tok
      match r.read (4 * n) with
      | .ok (b, r') => some (showBytes b, r')
      | .error _ => some ("err", r)
  | 'c' => do
      let n ← natTail tok
      match r.read (4 * n) with
      | .ok (b, r') => some (showBytes b, r')
      | .error _ => some ("err", r)
  | _ => none

/-- typed helpers are not atomic: after a failed composite read the position is wherever the helper got to.
    The C++ driver prints `?` for the position in that case and so do we. -/
def isComposite (tok : String) : Bool := tok.front ∈ ['z', 'q', 'i', 'v']

def rdHist (backend : String) (data : Bytes) (ops : List String) : Option String := do
  match ← mkReader backend data with
  | .error _ => pure "create-err"
  | .ok r0 =>
    let mut r := r0
    let mut outs : List String := []
    for tok in ops do
      let (o, r') ← rdOp r tok
      if o = "err:alloc" then return "err:alloc"
      let failed := o.startsWith "err"
      if failed ∧ isComposite tok then
        outs := s!"{o}:?:{r'.len}" :: outs
        -- position after a failed composite helper is unspecified: stop comparing this history
        return joinWith "," outs.reverse
      outs := s!"{o}:{r'.pos}:{r'.len}" :: outs
      r := r'
    pure (joinWith "," outs.reverse)

/-- a new stream object derived from an existing one: `S<start>:<len>`, `H<len>`, `C` -/
def dopOf (tok : String) : Option DOp :=
  let args := ((tok.drop 1).toString.splitOn ":")
  match tok.front with
  | 'S' => do
      let a ← (args[0]?).bind (·.toNat?); let b ← (args[1]?).bind (·.toNat?)
      pure (.slice a b)
  | 'H' => do pure (.here (← (args[0]?).bind (·.toNat?)))
  | 'C' => some .copy
  | _ => none

/-- the plain read / seek tokens, as operations of the model -/
def ropOf (tok : String) : Option ROp :=
  match tok.front with
  | 'r' => do pure (.read (← natTail tok))
  | 'p' => do pure (.readPartial (← natTail tok))
  | 'k' => do pure (.peek (← natTail tok))
  | 's' => do pure (.seek (← natTail tok))
  | 'f' => do pure (.fwd (← natTail tok))
  | 'b' => do pure (.back (← natTail tok))
  | 'B' => some .seekBegin
  | 'E' => some .seekEnd
  | _ => none

/-- interleaved histories over several objects: every step is `Sys.step` of `Op2Model.StreamSys` (the system the
    independence theorems of C13 are about); typed helper tokens, which are not `ROp`s, go through `rdOp` -/
def multiRun (kind : String) (data : Bytes) (steps : List String) : Option String := do
  let r0 ← match kind with
    | "mem" => some (Rd.mem { data := data, pos := 0 })
    | "file" => some (Rd.file { data := data, pos := 0 })
    | _ => none
  let mut objs : Sys := [r0]
  let mut outs : List String := []
  for step in steps do
    let parts := step.splitOn "."
    let id ← (parts[0]?).bind (·.toNat?)
    let tok ← parts[1]?
    let mut res := ""
    let req : Option OOp :=
      if tok.front = 'S' ∨ tok.front = 'H' ∨ tok.front = 'C' then (dopOf tok).map OOp.derive else (ropOf tok).map OOp.op
    match req with
    | some o =>
      let (x, objs') := Sys.step objs id o
      objs := objs'
      res ← match x with
        | none => none
        | some (.out y) => some (showOut y)
        | some (.made _) => some "new"
        | some .failed => some "err"
        | some .unsupported => none
    | none =>
      if tok.front = 'S' ∨ tok.front = 'H' ∨ tok.front = 'C' then none
      let r ← objs[id]?
      let (o, r') ← rdOp r tok
      objs := objs.set id r'
      res := o
    let st := objs.map fun o => s!":{o.pos}/{o.len}"
    outs := (res ++ String.join st) :: outs
  pure (joinWith "," outs.reverse)

/-! writers -/

def wrOpOf (tok : String) : Option WOp :=
  match tok.front with
  | 'w' => do let b ← hex? (tok.drop 1).toString; pure (.write b)
  | 's' => do pure (.seek (← natTail tok))
  | 'f' => do pure (.fwd (← natTail tok))
  | 'b' => do pure (.back (← natTail tok))
  | 'B' => some .seekBegin
  | 'E' => some .seekEnd
  | _ => none

def memwHist (init : Bytes) (ops : List String) : Option String := do
  let mut s : MemW := { buf := init, pos := 0 }
  let mut outs : List String := []
  for tok in ops do
    let op ← wrOpOf tok
    let (ok, s') := MemW.step s op
    outs := s!"{if ok then "ok" else "err"}:{s'.pos}:{s'.buf.length}:{hexOfBytes s'.buf}" :: outs
    s := s'
  pure (joinWith "," outs.reverse)

def dynwHist (ops : List String) : Option String := do
  let mut s : DynW := { content := [] }
  let mut outs : List String := []
  for tok in ops do
    let op ← wrOpOf tok
    -- forward seeks / absolute seeks beyond the allocation cap are attacker-sized allocations
    let big : Bool := match op with
      | .seek p => decide (p ≥ allocCap ∧ p ≤ dynCap)
      | .fwd d => decide (s.content.length + d ≥ allocCap ∧ s.content.length + d ≤ dynCap ∧ d ≤ W64 - 1 - s.content.length)
      | _ => false
    let tooBig : Bool := match op with
      | .seek p => decide (p > dynCap)
      | .fwd d => decide (d ≤ W64 - 1 - s.content.length ∧ s.content.length + d > dynCap)
      | _ => false
    if big || tooBig then
      return "err:alloc"
    let (ok, s') := DynW.step s op
    outs := s!"{if ok then "ok" else "err"}:{s'.content.length}:{showBytes s'.content}" :: outs
    s := s'
  pure (joinWith "," outs.reverse)

def handleStream (cmd : String) (args : List String) : Option String :=
  match cmd, args with
  | "rd.hist", [backend, data, ops] => do
      let data ← data? data
      rdHist backend data (if ops = "-" then [] else ops.splitOn ",")
  | "multi", [kind, data, steps] => do
      let data ← data? data
      multiRun kind data (if steps = "-" then [] else steps.splitOn ",")
  | "wr.mem", [init, ops] => do
      let init ← hex? init
      memwHist init (if ops = "-" then [] else ops.splitOn ",")
  | "wr.dyn", [ops] => dynwHist (if ops = "-" then [] else ops.splitOn ",")
  | "wr.prefixed", [w, n, sg] => do
      -- Write<(u)intW>(std::string(n, 'x')) into a growing writer
      let w ← nat? w; let n ← nat? n; let sg ← nat? sg
      pure (match writePrefixed w (sg != 0) (List.replicate n 120) n with
        | .ok b => showBytes b
        | .error _ => "err:0")
  | "fw.open", [flags, ex, b] => do
      let fl ← nat? flags; let ex ← nat? ex; let b ← hex? b
      let f : OpenFlags := { canOpenExisting := fl % 2 == 1, canOpenNew := (fl / 2) % 2 == 1,
                             truncate := (fl / 4) % 2 == 1, append := (fl / 8) % 2 == 1 }
      let prior : Option Bytes := if ex != 0 then some (asciiBytes "HELLO") else none
      let (after, ok) := openWriteClose f prior b
      pure s!"{if ok then "ok" else "refused"} {match after with | some c => hexOfBytes c | none => "absent"}"
  | "fw.seq", [flags, prior, ops] => do
      let fl ← nat? flags
      let prior : Option Bytes ← if prior = "absent" then pure none else (hex? prior).map some
      let f : OpenFlags := { canOpenExisting := fl % 2 == 1, canOpenNew := (fl / 2) % 2 == 1,
                             truncate := (fl / 4) % 2 == 1, append := (fl / 8) % 2 == 1 }
      match FileW.opened f prior with
      | none => pure s!"refused {match prior with | some c => showBytes c | none => "absent"}"
      | some s0 =>
        let mut s := s0
        let mut outs : List String := [s!"ok:{s0.pos}"]
        for tok in (if ops = "-" then [] else ops.splitOn ",") do
          let op ← wrOpOf tok
          let (ok, s') := FileW.step s op
          outs := s!"{if ok then "ok" else "err"}:{s'.pos}" :: outs
          s := s'
        pure s!"{joinWith "," outs.reverse} {showBytes s.content}"
  | "copy", [backend, data, startPos, chunk] => do
      let data ← data? data; let p ← nat? startPos; let B ← nat? chunk
      match ← mkReader backend data with
      | .error _ => pure "create-err"
      | .ok r0 =>
        -- the copy runs on the object of the requested backend itself (`copyLoopRd`; `copy_every_backend` says what it must give)
        match r0.step (.seek p) with
        | (.unit, r1) =>
          let (r, w) := copyLoopRd B (r0.len + 2) r1 []
          pure s!"{showBytes w} {r.pos}"
        | _ => pure "err"
  | _, _ => none
end Driver
