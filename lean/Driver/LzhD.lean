import Driver.Util
import Op2Model.Lzh
/-! groups `lzh` / `bits` (C04), mirrored from harness/drv/lzh.cpp -/
namespace Driver
open Op2 Op2.Huff Op2.Lzh

namespace LzhDrv

def lcg (s : Nat) : Nat := (s * 6364136223846793005 + 1442695040888963407) % W64
def sizes : Array Nat := #[1, 2, 3, 61, 62, 100, 4033, 4034, 4095, 4096, 4097, 10000]

structure Acc where
  st : St
  out : Array UInt8 := #[]
  calls : Nat := 0
  shortSeen : Bool := false
  late : Bool := false
  drained : Bool := false
  err : Option Nat := none

def Acc.push (a : Acc) (bs : List UInt8) : Acc := { a with out := bs.foldl (fun o b => o.push b) a.out }

/-- one `GetData(k)` (k clipped to 4 MiB like the C++ side's real buffer); returns the number of bytes delivered -/
def doData (a : Acc) (k : Nat) : Acc × Nat :=
  let cap := min k (2 ^ 22)
  match getData a.st cap with
  | .error _ => ({ a with err := some a.calls }, 0)
  | .ok (bs, st') =>
    let n := bs.length
    let a := { a with st := st', calls := a.calls + 1, late := a.late || (n > 0 && a.shortSeen), shortSeen := a.shortSeen || n < cap }
    (a.push bs, n)

def doInternal (a : Acc) : Acc × Nat :=
  match getInternal a.st with
  | .error _ => ({ a with err := some a.calls }, 0)
  | .ok (bs, st') =>
    let n := bs.length
    let a := { a with st := st', calls := a.calls + 1, late := a.late || (n > 0 && a.shortSeen), shortSeen := a.shortSeen || n == 0 }
    (a.push bs, n)

partial def repeatCall (f : Acc → Acc × Nat) (a : Acc) : Acc :=
  let (a', n) := f a
  if a'.err.isSome then a' else if n == 0 then { a' with drained := true } else repeatCall f a'

partial def randomDrain (a : Acc) (rnd : Nat) : Acc :=
  let rnd := lcg rnd
  let pick := (rnd >>> 33) % 15
  let (a', n) := if pick ≥ 12 then doInternal a else doData a (sizes.getD pick 1)
  if a'.err.isSome then a' else if n == 0 then { a' with drained := true } else randomDrain a' rnd

def isPrefix (a b : Array UInt8) : Bool :=
  a.size ≤ b.size && (List.range a.size).all (fun i => a.getD i 0 == b.getD i 0)

def dec (data : Array UInt8) (items : List String) : Option String := do
  let mut a : Acc := { st := St.init data }
  let n := items.length
  let mut ix := 0
  for it0 in items do
    if a.err.isSome then break
    let star := it0.endsWith "*"
    if star && ix + 1 != n then none
    let it := if star then (it0.dropEnd 1).toString else it0
    if it.isEmpty then none
    if it.startsWith "d" then
      let k ← (it.drop 1).toString.toNat?
      if star && k == 0 then none
      if star then a := repeatCall (fun x => doData x k) a else a := (doData a k).1
    else if it == "i" then
      if star then a := repeatCall doInternal a else a := (doInternal a).1
    else if it.startsWith "r" && star then
      let seed ← (it.drop 1).toString.toNat?
      a := randomDrain a seed
    else none
    ix := ix + 1
  let (ref, rs) := Spec.decode data
  let refArr := ref.toArray
  let status := match a.err with | none => "ok" | some c => s!"err@{c}"
  let rsS := match rs with | .done => "done" | .capacity => "capacity" | .fuel => "fuel"
  let prefixOk := isPrefix a.out refArr
  let refOk :=
    if a.err.isNone && a.drained && rs == .done then a.out.toList == ref
    else if a.err.isNone && a.drained && rs == .capacity then false
    else prefixOk
  pure s!"{status} {showBytes a.out.toList} calls={a.calls} late={showBool a.late} ref={rsS}:{showBool refOk}"

def parseTokens (s : String) : Option (List Spec.Token) :=
  if s = "-" then some [] else
  (s.splitOn ",").mapM fun t =>
    if t.startsWith "l" then do
      let b ← (t.drop 1).toString.toNat?
      if b > 255 then none else pure (Spec.Token.lit b)
    else if t.startsWith "m" then
      match (t.drop 1).toString.splitOn ":" with
      | [l, d] => do
        let l ← l.toNat?; let d ← d.toNat?
        if l < 3 || l > 60 || d < 1 || d > 4096 then none else pure (Spec.Token.mat l d)
      | _ => none
    else none

/-- `BitStreamReader` op sequences run on `CBits`, the class as written with its shift register (proved equal to the
    pure bit function by `C04_bit_reader_refines`) -/
def bitsOps (data : Array UInt8) (ops : String) : Option String := do
  let mut c : CBits := { pos := 0, buf := 0 }
  let mut outs : Array String := #[]
  for ch in ops.toList do
    if ch == 'b' then
      let (b, c') := CBits.readBit data c; c := c'; outs := outs.push (toString b)
    else if ch == '8' then
      let (v, c') := CBits.read8 data c; c := c'; outs := outs.push (toString v)
    else if ch == 'e' then outs := outs.push (if endOfStream data c.pos then "E" else "n")
    else if ch == 'p' then outs := outs.push s!"@{c.pos}"
    else none
  pure (if outs.isEmpty then "-" else ",".intercalate outs.toList)

end LzhDrv

def handleLzh (cmd : String) (args : List String) : Option String :=
  match cmd, args with
  | "lzh.dec", [d, sched] => do
      let data ← data? d
      LzhDrv.dec data.toArray (sched.splitOn ",")
  | "lzh.ref", [d] => do
      let data ← data? d
      let (ref, rs) := Spec.decode data.toArray
      let rsS := match rs with | .done => "done" | .capacity => "capacity" | .fuel => "fuel"
      pure s!"{rsS} {showBytes ref}"
  | "lzh.enc", [toks] => do
      let ts ← LzhDrv.parseTokens toks
      let out := Spec.encode ts
      pure s!"{showBytes out} {hexOfBytes (out.take 16)}"
  | "bits.ops", [d, ops] => do
      let data ← data? d
      LzhDrv.bitsOps data.toArray ops
  | "lzh.pay", [d, pay, toks] => do
      let data ← data? d; let payload ← data? pay; let toks ← nat? toks
      let a : LzhDrv.Acc := { st := St.init data.toArray }
      let a := LzhDrv.repeatCall (fun x => LzhDrv.doData x 4096) a
      if a.err.isSome then pure "err" else
      let out := a.out.toList
      let isPre := payload.length ≤ out.length && out.take payload.length == payload
      let (ref, _) := Spec.decode data.toArray
      let codes := Spec.codeCount data.toArray
      pure s!"ok prefix={showBool isPre} tail-bytes={if isPre then out.length - payload.length else 0} extra-codes={if codes ≥ toks then codes - toks else 999999} ref={showBool (ref == out)}"
  | "lzh.vol", [d] => do
      let data ← data? d
      let (ref, rs) := Spec.decode data.toArray
      pure (match rs with
        | .done => s!"ok {showBytes ref} ref=done:1"
        | .capacity => "err ref=capacity"
        | .fuel => "fuel")
  | _, _ => none
end Driver
