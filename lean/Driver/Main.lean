import Driver.StrPath
import Driver.TileD
import Driver.StreamD
import Driver.HuffD
import Driver.LzhD
import Driver.VolD
import Driver.ResD
import Driver.MapD
import Driver.ClmD
import Driver.PrtD
import Driver.BmpD
/-!
# op2model — line-protocol driver for the executable model

One case per input line: `<cmd> <arg> …`; one canonical result per output line.
Unknown or malformed commands print `bad-op` (never a default value).
-/
open Driver

def handlers : List (String → List String → Option String) :=
  handleStrPath ::
  handleTile ::
  handleStream ::
  handleHuff ::
  handleLzh ::
  handleVol ::
  handleRes ::
  handleMap ::
  handleClm ::
  handlePrt ::
  handleBmp ::
  []

def dispatch (line : String) : String :=
  match (line.trimAscii.toString.splitOn " ").filter (· ≠ "") with
  | [] => "bad-op"
  | cmd :: args =>
    match handlers.findSome? (fun h => h cmd args) with
    | some r => r
    | none => "bad-op"

partial def loop (inp : IO.FS.Stream) (out : IO.FS.Stream) : IO Unit := do
  let line ← inp.getLine
  if line.isEmpty then return ()
  out.putStrLn (dispatch line)
  loop inp out

def main : IO Unit := do
  let inp ← IO.getStdin
  let out ← IO.getStdout
  loop inp out
  out.flush
