import Driver.Util
/-! group `map` (C06, C07): mirrored from harness/drv/map.cpp -/
namespace Driver
open Op2 Op2.Map

namespace MapD

def tailStr (s : String) : String := String.ofList (s.toList.drop 1)

def genBytes (n seed : Nat) : Bytes :=
  (List.range n).map fun i => UInt8.ofNat ((i * 131 + seed * 7 + (i >>> 8)) % 256)

def term? (t : String) : Option Bytes :=
  match t.toList with
  | [] => none
  | 'z' :: r => do let n ← (String.ofList r).toNat?; pure (zeros n)
  | 'g' :: r =>
    match (String.ofList r).splitOn ":" with
    | [n, seed] => do let n ← n.toNat?; let seed ← seed.toNat?; pure (genBytes n seed)
    | _ => none
  | _ => bytesOfHex t

def patch? (bs : Bytes) (p : String) : Option Bytes :=
  match p.splitOn ":" with
  | [off, hx] => do
    let off ← off.toNat?; let b ← bytesOfHex hx
    if off + b.length > bs.length then none else pure (bs.take off ++ b ++ bs.drop (off + b.length))
  | _ => none

/-- data expression: `term(+term)*(~off:hex)*(@len)?` -/
def dataExpr? (s : String) : Option Bytes :=
  match s.splitOn "@" with
  | [l] => body l
  | [l, k] => do let k ← k.toNat?; let b ← body l; pure (b.take k)
  | _ => none
where
  body (l : String) : Option Bytes :=
    match l.splitOn "~" with
    | [] => none
    | t :: ps => do
      let parts ← (t.splitOn "+").mapM term?
      ps.foldlM patch? (parts.flatMap id)

def dumpMap (m : Map) (n : Nat) : String :=
  let srcs := ";".intercalate (m.sources.map fun s => s!"{hexOfBytes s.name}:{s.numTiles}")
  let grps := ";".intercalate (m.groups.map fun g => s!"{hexOfBytes g.name}:{g.w}:{g.h}:{showBytes (encU32s g.idx)}")
  s!"ok n={n} v={m.versionTag} sg={if m.savedGame then 1 else 0} w={m.width} h={m.height} tc={m.tiles.length}" ++
  s!" tiles={showBytes (encU32s m.tiles)} clip={hexOfBytes m.clip} src={m.sources.length}[{srcs}]" ++
  s!" map={m.mappings.length}:{showBytes (m.mappings.flatMap id)} ter={m.terrains.length}:{showBytes (m.terrains.flatMap id)}" ++
  s!" grp={m.groups.length}[{grps}]"

def readAs (kind : String) (b : Bytes) : Option Outcome :=
  if kind = "m" then some (Map.read b) else if kind = "s" then some (Map.readSavedGame b) else none

def showOutcome : Outcome → String
  | .ok m n => dumpMap m n
  | .err _ => "err"
  | .fault _ => "fault:model"

def roundTrip (m : Map) : String :=
  match Map.write m with
  | .error _ => "out=err"
  | .ok out =>
    let r := s!"out={showBytes out}"
    match Map.read out with
    | .ok m2 n2 =>
      let st := match Map.write m2 with
        | .ok o2 => o2 == out
        | .error _ => false
      s!"{r} rr=ok same={showBool (dumpMap m2 0 == dumpMap m 0)} all={showBool (n2 == out.length)} st={showBool st}"
    | .err _ => r ++ " rr=err"
    | .fault _ => r ++ " rr=fault:model"

def numList? (s : String) : Option (List Nat) :=
  if s = "-" then some [] else
  (s.splitOn ",").foldlM (fun acc t =>
    match t.splitOn "-" with
    | [a] => do let a ← a.toNat?; pure (acc ++ [a])
    | [a, b] => do
      let a ← a.toNat?; let b ← b.toNat?
      if b < a || b - a > 10000000 then none else pure (acc ++ (List.range (b - a + 1)).map (· + a))
    | _ => none) []

/-- one edit; `none` = malformed, `some (m', 'o'|'e')` otherwise; a fault (coordinate outside the map) is `none` too:
    the harness never sends one -/
def applyOp (m : Map) (op : String) : Option (Map × Char) :=
  match op.toList with
  | 'c' :: r =>
    match (String.ofList r).splitOn ":" with
    | [x, y, v] => do
      let x ← x.toNat?; let y ← y.toNat?; let v ← v.toNat?
      match Map.setCellType m (u32 v) x y with
      | .ok (.ok m') => pure (m', 'o')
      | .ok (.error _) => pure (m, 'e')
      | .error _ => none
    | _ => none
  | 'l' :: r =>
    match (String.ofList r).splitOn ":" with
    | [x, y, b] => do
      let x ← x.toNat?; let y ← y.toNat?; let b ← b.toNat?
      match Map.setLavaPossible m (b != 0) x y with
      | .ok m' => pure (m', 'o')
      | .error _ => none
    | _ => none
  | 'v' :: r => do let v ← (String.ofList r).toNat?; pure (Map.setVersionTag m (u32 v), 'o')
  | ['t'] => pure (Map.trimTilesetSources m, 'o')
  | _ => none

def cuts (kind : String) (bytes : Bytes) (ks : List Nat) : Option String := do
  let full ← readAs kind bytes
  let fullDump := showOutcome full
  let nS := match full with
    | .ok _ n => toString n
    | _ => "err"
  let mut okc := 0; let mut errc := 0; let mut same := true; let mut first := "none"
  for k in ks do
    if k > bytes.length then none
    let r ← readAs kind (bytes.take k)
    match r with
    | .ok m n =>
      if okc == 0 then first := toString k
      okc := okc + 1
      if dumpMap m n != fullDump then same := false
    | _ => errc := errc + 1
  pure s!"n={nS} firstok={first} ok={okc} err={errc} same={showBool same}"

def leBytes (v width : Nat) : Bytes := (List.range width).map fun i => UInt8.ofNat ((v >>> (8 * i)) % 256)

def vals (kind : String) (bytes : Bytes) (off width : Nat) (vs : List Nat) : Option String := do
  if width < 1 || width > 8 || off + width > bytes.length then none
  let mut out : List String := []
  for v in vs do
    let b := bytes.take off ++ leBytes v width ++ bytes.drop (off + width)
    let r ← readAs kind b
    match r with
    | .ok m n =>
      let d := dumpMap m n
      out := out ++ [s!"ok:{m.width}:{m.height}:{m.tiles.length}:{n}:{fnv1a d.toUTF8.toList}"]
    | .err _ => out := out ++ ["e"]
    | .fault _ => out := out ++ ["fault:model"]
  pure (if out.isEmpty then "-" else " ".intercalate out)

end MapD

open MapD in
def handleMap (cmd : String) (args : List String) : Option String :=
  match cmd, args with
  | "map.read", [kind, d] => do let b ← dataExpr? d; let r ← readAs kind b; pure (showOutcome r)
  | "map.readat", [kind, skip, d] => do
      let b ← dataExpr? d; let skip ← skip.toNat?
      if skip > b.length then none
      let r ← readAs kind (b.drop skip)
      match r with
      | .ok m n =>
        let r2 ← readAs kind (b.drop (skip + n))
        pure s!"{dumpMap m n} 2nd={showOutcome r2}"
      | o => pure (showOutcome o)
  | "map.file", [kind, d] => do
      let b ← dataExpr? d; let r ← readAs kind b
      pure (match r with
        | .ok m _ => dumpMap m 0
        | o => showOutcome o)
  | "map.rt", [d] => do
      let b ← dataExpr? d
      pure (match Map.read b with
        | .ok m n => dumpMap m n ++ " " ++ roundTrip m
        | o => showOutcome o)
  | "map.edit", [d, ops] => do
      let b ← dataExpr? d
      match Map.read b with
      | .ok m n =>
        let (m', res) ← (ops.splitOn ",").foldlM (fun (acc : Map × String) op => do
          let (m1, c) ← applyOp acc.1 op
          pure (m1, acc.2.push c)) (m, "")
        pure (dumpMap m' n ++ s!" ops={res} " ++ roundTrip m')
      | o => pure (showOutcome o)
  | "map.cuts", [kind, d, ks] => do let b ← dataExpr? d; let ks ← numList? ks; cuts kind b ks
  | "map.vals", [kind, d, off, width, vs] => do
      let b ← dataExpr? d; let off ← nat? off; let width ← nat? width; let vs ← numList? vs
      vals kind b off width vs
  | "map.default", [] =>
      -- `Map()` : version `MinMapVersion`, not a saved game, 0 x 0, empty tables, zero clip rectangle (after the D12 repair)
      let m : Map := { versionTag := minMapVersion, savedGame := false, width := 0, height := 0, tiles := [], clip := zeros rectSize,
                       sources := [], mappings := [], terrains := [], groups := [] }
      pure (match Map.write m with
        | .error _ => "out=err"
        | .ok out => s!"out={showBytes out} " ++ showOutcome (Map.read out))
  | _, _ => none
end Driver
