import Driver.Util
import Op2Model.Res
/-! groups `res` / `arc` (C17), mirrored from harness/drv/res.cpp -/
namespace Driver
open Op2 Op2.Res

namespace ResDrv

def bytesLt : Bytes → Bytes → Bool
  | [], [] => false
  | [], _ :: _ => true
  | _ :: _, [] => false
  | a :: as, b :: bs => if a < b then true else if b < a then false else bytesLt as bs

def insertSorted (x : Bytes) : List Bytes → List Bytes
  | [] => [x]
  | y :: ys => if bytesLt x y then x :: y :: ys else y :: insertSorted x ys
def sortBytes (xs : List Bytes) : List Bytes := xs.foldr insertSorted []

def listStr (v : List Bytes) : String := "[" ++ ",".intercalate ((sortBytes v).map hexOfBytes) ++ "]"

def parseMembers (s : String) : Option (List (Bytes × Bytes)) :=
  if s = "-" then some [] else
  (s.splitOn ",").mapM fun m =>
    match m.splitOn "=" with
    | [n, c] => do let n ← hex? n; let c ← hex? c; pure (n, c)
    | _ => none

/-- members in index order: both archive kinds sort by the case-insensitive comparator -/
def mkArch (file : Bytes) (ms : List (Bytes × Bytes)) : Arch :=
  let sorted := Str.sortCI (fun m : Bytes × Bytes => m.1) ms
  { file := file, names := sorted.map (·.1), contents := sorted.map (·.2) }

def parseLayout (spec : String) : Option Layout := do
  let mut L : Layout := { loose := [], dirs := [], sub := [], archives := [] }
  let mut vols : List Arch := []
  let mut clms : List Arch := []
  if spec ≠ "-" then
    for item in spec.splitOn ";" do
      match item.splitOn ":" with
      | ["f", n, c] => let n ← hex? n; let c ← hex? c; L := { L with loose := L.loose ++ [(n, c)] }
      | ["d", n] => let n ← hex? n; L := { L with dirs := L.dirs ++ [n] }
      | ["s", d, n, c] =>
        let d ← hex? d; let n ← hex? n; let c ← hex? c
        L := { L with sub := L.sub ++ [(d, n, c)], dirs := if L.dirs.contains d then L.dirs else L.dirs ++ [d] }
      | ["v", f, ms] =>
        let f ← hex? f; let ms ← parseMembers ms
        vols := vols ++ [mkArch f ms]
        L := { L with loose := L.loose ++ [(f, [])] }          -- the archive file itself is a loose file (content not modelled)
      | ["c", f, ms] =>
        let f ← hex? f; let ms ← parseMembers ms
        clms := clms ++ [mkArch f ms]
        L := { L with loose := L.loose ++ [(f, [])] }
      | _ => none
  -- loaded: regular files whose extension is exactly ".vol", then exactly ".clm"
  let isExt (e : String) (a : Arch) : Bool := Path.extension a.file == asciiBytes e
  pure { L with archives := vols.filter (isExt ".vol") ++ clms.filter (isExt ".clm") }

def query (L : Layout) (q : String) : Option String :=
  match q.splitOn ":" with
  | ["g", n, acc] => do
      let n ← hex? n
      pure (match getStream L n (acc == "1") with
        | .error _ => "err"
        | .ok none => "none"
        | .ok (some b) => showBytes b ++ ".")
  | ["t", e, acc] => do let e ← hex? e; pure (listStr ((allOfType L e (acc == "1")).map Str.toUpper))
  | ["p", p, acc] => do let p ← hex? p; pure (listStr (allMatching L (matchPat p) (acc == "1")))
  | ["a", n] => do
      let n ← hex? n
      pure (match containing L n with | none => "-" | some f => hexOfBytes f)
  | ["n"] => some (listStr (L.archives.map (·.file)))
  | _ => none

def lookup (kind members names : String) : Option String := do
  let ms ← parseMembers members
  let a := mkArch [] ms
  let mut out := s!"count={a.count}"
  if names ≠ "-" then
    for nh in names.splitOn "," do
      let n ← hex? nh
      let c := a.contains n
      let (idx, nm) := match a.index n with
        | some i => (toString i, match a.name i with | .ok x => hexOfBytes x | .error _ => "-")
        | none => ("E", "-")
      out := out ++ s!" {showBool c}:{idx}:{nm}"
  let n := a.count
  for bad in [n, n + 1, 2 ^ 32, 2 ^ 64 - 1] do
    let r := (match a.name bad with | .ok _ => "n" | .error _ => "E") ++ (match a.name bad with | .ok _ => "s" | .error _ => "E")
      ++ (match a.stream bad with | .ok _ => "o" | .error _ => "E") ++ (match a.stream bad with | .ok _ => "x" | .error _ => "E")
    out := out ++ " " ++ r
  let mut self := ""
  for i in [0:n] do
    self := self ++ (match a.name i with
      | .ok x => (match a.index x with | some j => (if j == i then "=" else "#") | none => "E")
      | .error _ => "E")
  let _ := kind
  pure (out ++ " self=" ++ (if self.isEmpty then "-" else self))

end ResDrv

def handleRes (cmd : String) (args : List String) : Option String :=
  match cmd, args with
  | "res.q", [layout, queries] => do
      let L ← ResDrv.parseLayout layout
      let rs ← (queries.splitOn ";").mapM (ResDrv.query L)
      pure (" ".intercalate rs)
  | "arc.lookup", [kind, members, names] => ResDrv.lookup kind members names
  | _, _ => none
end Driver
