import Driver.Util
/-! group `tile` (C16): whole-map sweeps, mirrored from harness/drv/tile.cpp -/
namespace Driver
open Op2

def hashAdd (h v : Nat) : Nat := Id.run do
  let mut h := h
  for i in [0:8] do
    h := ((h ^^^ ((v >>> (8 * i)) % 256)) * 1099511628211) % W64
  return h

def fnvInit : Nat := 14695981039346656037

def wordOf (i seed : Nat) : Nat :=
  if seed = 0 then ((i % 2048) <<< 5) ||| ((i >>> 11) % 32) else
  u32 ((u64 (i * 2654435761 + seed * 40503 + 12345)) >>> 7)

def tileAddr (lgw h : Nat) : String := Id.run do
  let w := 2 ^ lgw
  let n := w * h
  let mut seen : Array Bool := Array.replicate n false
  let mut distinct := 0
  let mut oor := 0
  let mut hs := fnvInit
  for y in [0:h] do
    for x in [0:w] do
      let idx := Tile.tileIndex h x y
      hs := hashAdd hs idx
      if idx ≥ n then oor := oor + 1
      else if !(seen.getD idx false) then
        seen := seen.set! idx true
        distinct := distinct + 1
  return s!"{w} {h} {n} {distinct} {oor} {hs}"

def tileAcc (lgw h seed : Nat) : String := Id.run do
  let w := 2 ^ lgw
  let n := w * h
  let mut tiles : Array Nat := Array.ofFn (n := n) (fun i => wordOf i.val seed)
  let mut g := fnvInit
  for y in [0:h] do
    for x in [0:w] do
      let t := tiles.getD (Tile.tileIndex h x y) 0
      let mi := Tile.mappingIndexOf t
      g := hashAdd g (Tile.cellTypeOf t)
      g := hashAdd g mi
      g := hashAdd g (if Tile.lavaPossibleOf t then 1 else 0)
      g := hashAdd g (u16 (3 * mi + 1))
      g := hashAdd g (u16 (5 * mi + 2))
  for y in [0:h] do
    for x in [0:w] do
      let i := Tile.tileIndex h x y
      let t := tiles.getD i 0
      let t := Tile.withCellType t ((x * 7 + y * 3 + seed) % 32)
      let t := Tile.withLavaPossible t ((x + 2 * y + seed) % 3 == 0)
      tiles := tiles.set! i t
  let mut s := fnvInit
  for t in tiles do
    s := hashAdd s t
  return s!"{g} {s}"

def handleTile (cmd : String) (args : List String) : Option String :=
  match cmd, args with
  | "tile.addr", [lgw, h] => do let lgw ← nat? lgw; let h ← nat? h; pure (tileAddr lgw h)
  | "tile.acc", [lgw, h, seed] => do
      let lgw ← nat? lgw; let h ← nat? h; let seed ← nat? seed; pure (tileAcc lgw h seed)
  | "tile.remap", [lgw, h, x, y, ops] => do
      let lgw ← nat? lgw; let h ← nat? h; let x ← nat? x; let y ← nat? y
      if x ≥ 2 ^ lgw ∨ y ≥ h then none
      let mut cur := 0
      let mut outs : List String := []
      for tok in ops.splitOn "," do
        match tok.front with
        | 'k' => let k ← (tok.drop 1).toString.toNat?; if k > 2047 then none else cur := k
        | 'q' | 'p' =>
            -- every tile carries the same word `cur <<< 5`: whichever tile the coordinate addresses refers to mapping `cur`
            let mi := Tile.mappingIndexOf (cur * 32)
            outs := s!"{mi}:{u16 (3 * mi + 1)}:{u16 (5 * mi + 2)}" :: outs
        | _ => none
      pure (joinWith "," outs.reverse)
  | "tile.setcell", [w, v] => do
      let w ← nat? w; let v ← int? v
      let other := u32 (W32 - 1 - w)
      pure (match Tile.setCellType (ofI32 v) w with
        | .ok w' => s!"ok {w'} {other} {Tile.cellTypeOf w'}"
        | .error _ => s!"err {w} {other} {Tile.cellTypeOf w}")
  | "tile.setlava", [w, b] => do
      let w ← nat? w; let b ← nat? b
      let w' := Tile.withLavaPossible w (b != 0)
      pure s!"{w'} {u32 (W32 - 1 - w)} {showBool (Tile.lavaPossibleOf w')}"
  | _, _ => none
end Driver
