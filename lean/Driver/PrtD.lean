import Driver.Util
/-! group `prt` (C10, C11_prt, C20_prt, D21): mirrored from harness/drv/prt.cpp -/
namespace Driver
open Op2 Op2.Prt

namespace PrtD

def paletteMemBytes (p : Palette) : Bytes := p.flatMap encColorMem

def sl (xs : List Nat) : String := "/".intercalate (xs.map toString)

def dumpText (a : ArtFile) : String :=
  let pals := String.join (a.palettes.map fun p => s!",{fnv1a (paletteMemBytes p)}")
  let imgs := String.join (a.imageMetas.map fun m =>
    "," ++ sl [m.scanLineByteWidth, m.pixelDataOffset, m.height, m.width, m.type, m.paletteIndex])
  let anims := String.join (a.animations.map fun an =>
    let frs := String.join (an.frames.map fun f =>
      ",<" ++ sl [f.layerMeta.count, f.layerMeta.flag.toNat, f.unknownBits.count, f.unknownBits.flag.toNat,
                  f.optional1, f.optional2, f.optional3, f.optional4] ++ s!":{f.layers.length}" ++
      String.join (f.layers.map fun l => "," ++ sl [l.bitmapIndex, l.unknown, l.frameIndex, l.px, l.py]) ++ ">")
    let ucs := String.join (an.unknownContainer.map fun c => "," ++ sl [c.u1, c.u2, c.u3, c.u4])
    ",{" ++ sl [an.unknown, an.x1, an.y1, an.x2, an.y2, an.dx, an.dy, an.unknown2] ++
    s!";fr:{an.frames.length}" ++ frs ++ s!";uc:{an.unknownContainer.length}" ++ ucs ++ "}")
  s!"pal:{a.palettes.length}" ++ pals ++ s!" img:{a.imageMetas.length}" ++ imgs ++
  s!" anim:{a.animations.length}" ++ anims ++ s!" unk:{a.unknownAnimationCount}"

def showText (t : String) : String :=
  if t.utf8ByteSize ≤ 600 then t else s!"#{t.utf8ByteSize}:{fnv1a t.toUTF8.toList}"

def showLoadErr : Err → String
  | .alloc => "err:alloc"
  | _ => "err"

def b01 (b : Bool) : String := if b then "1" else "0"

def cmdRead (b : Bytes) : String :=
  match readFull b with
  | .error e => showLoadErr e
  | .ok ((_, a), rest) => s!"ok {b.length - rest.length} " ++ showText (dumpText a)

def le32 (b : Bytes) (off : Nat) : Nat := decU32 (b.drop off)

def cmdRules (b : Bytes) : String :=
  match readFull b with
  | .error e => showLoadErr e
  | .ok ((_, a), rest) =>
    let n := b.length - rest.length
    let pidx := a.imageMetas.all fun m => decide (m.paletteIndex < a.palettes.length)
    let scan := a.imageMetas.all fun m => m.scanLineByteWidth == (m.width + 3) / 4 * 4
    let lc := a.animations.all fun an => an.frames.all fun f => f.layerMeta.count == f.layers.length
    let off := 8 + 1052 * a.palettes.length + 4 + 20 * a.imageMetas.length
    let tot := if off + 16 > n then false else
      le32 b off == a.animations.length && le32 b (off + 4) == totalFrames a.animations &&
      le32 b (off + 8) == totalLayers a.animations && le32 b (off + 12) == a.unknownAnimationCount &&
      le32 b 4 == a.palettes.length && le32 b (8 + 1052 * a.palettes.length) == a.imageMetas.length
    s!"ok {n} {b01 pidx} {b01 scan} {b01 lc} {b01 tot}"

def cmdRt (b : Bytes) : String :=
  match readFull b with
  | .error e => showLoadErr e
  | .ok ((_, a), rest) =>
    let n := b.length - rest.length
    match write a with
    | .error _ => "ok write-refused"
    | .ok w1 =>
      match readFull w1 with
      | .error _ => "ok reread-refused"
      | .ok ((_, a2), rest2) =>
        match write a2 with
        | .error _ => "ok reread-refused"
        | .ok w2 =>
          let eq := decide (a2 = a) && rest2.isEmpty
          let isPrefix := w1.length == n && b.take w1.length == w1
          s!"ok {b01 eq} {b01 (w2 == w1)} 1 {b01 isPrefix} {showBytes w1}"

def modImg (a : ArtFile) (i : Nat) (f : ImageMeta → ImageMeta) : Option ArtFile :=
  match a.imageMetas[i]? with
  | none => none
  | some m => some { a with imageMetas := a.imageMetas.set i (f m) }

def modFrame (a : ArtFile) (i j : Nat) (f : Frame → Frame) : Option ArtFile :=
  match a.animations[i]? with
  | none => none
  | some an => match an.frames[j]? with
    | none => none
    | some fr => some { a with animations := a.animations.set i { an with frames := an.frames.set j (f fr) } }

def zeroLayer : Layer := ⟨0, 0, 0, 0, 0⟩

def resizeLayers (ls : List Layer) (n : Nat) : List Layer :=
  if n ≤ ls.length then ls.take n else ls ++ List.replicate (n - ls.length) zeroLayer

def applyOp (a : ArtFile) (op : String) : Option ArtFile :=
  match op.splitOn ":" with
  | ["pi", i, v] => do let i ← nat? i; let v ← nat? v; modImg a i fun m => { m with paletteIndex := v % 65536 }
  | ["sl", i, v] => do let i ← nat? i; let v ← nat? v; modImg a i fun m => { m with scanLineByteWidth := v % W32 }
  | ["w", i, v] => do let i ← nat? i; let v ← nat? v; modImg a i fun m => { m with width := v % W32 }
  | ["cnt", i, j, v] => do
      let i ← nat? i; let j ← nat? j; let v ← nat? v
      modFrame a i j fun f => { f with layerMeta := { f.layerMeta with count := v % 128 } }
  | ["lay", i, j, v] => do
      let i ← nat? i; let j ← nat? j; let v ← nat? v
      modFrame a i j fun f => { f with layers := resizeLayers f.layers v }
  | ["pp"] => if a.palettes.isEmpty then none else some { a with palettes := a.palettes.dropLast }
  | ["unk", v] => do let v ← nat? v; some { a with unknownAnimationCount := v % W32 }
  | _ => none

def applyOps (a : ArtFile) (ops : String) : Option ArtFile :=
  if ops = "-" then some a else (ops.splitOn ",").foldlM applyOp a

def cmdWr (b : Bytes) (ops : String) : Option String :=
  match readFull b with
  | .error .alloc => some "err:alloc"
  | .error _ => some "err"
  | .ok ((_, a), _) => do
    let a ← applyOps a ops
    match write a with
    | .ok w => pure s!"ok 1 {showBytes w}"
    | .error _ => pure "refused 1 -"

/-- a write into a writer that cannot take all the bytes fails; the object is a value (unchanged by construction:
    what the real object does is the direct oracle's business), a following full write gives the full bytes -/
def cmdWrFail (b : Bytes) (cap : Nat) : Option String :=
  match readFull b with
  | .error .alloc => some "err:alloc"
  | .error _ => some "err"
  | .ok ((_, a), _) =>
    match write a with
    | .ok w => some s!"{if w.length ≤ cap then "ok" else "failed"} 1 {showBytes w}"
    | .error _ => some "failed 1 refused"

def oneFrameFile (L c f1 f2 : Nat) : ArtFile :=
  let layers := (List.range L).map fun i => (⟨(i + 1) % 65536, 0, i % 256, i % 65536, (65536 - i % 65536) % 65536⟩ : Layer)
  let fr : Frame := ⟨⟨c % 128, f1 % 2 == 1⟩, ⟨5, f2 % 2 == 1⟩, 11, 12, 13, 14, layers⟩
  ⟨[], [], [⟨1, 2, 3, 4, 5, 6, 7, 8, [fr], []⟩], 0⟩

def cmdLc (L c f1 f2 : Nat) : String :=
  match write (oneFrameFile L c f1 f2) with
  | .ok w => s!"ok {showBytes w}"
  | .error _ => "refused"

def cmdLcSweep (maxL : Nat) : String := Id.run do
  let mut badAcc := 0
  let mut badRef := 0
  let mut refused := 0
  let mut written := 0
  let mut h := 14695981039346656037
  for L in [0:maxL + 1] do
    for c in [0:128] do
      let fl := (L + c) % 4
      match write (oneFrameFile L c (fl % 2) (fl / 2)) with
      | .ok w =>
        written := written + 1
        if L ≠ c then badAcc := badAcc + 1
        h := w.foldl (fun h b => ((h ^^^ b.toNat) * 1099511628211) % W64) h
      | .error _ =>
        refused := refused + 1
        if L = c then badRef := badRef + 1
  return s!"{badAcc} {badRef} {refused} {written} {h}"

def cmdPrefixes (b : Bytes) : String :=
  match readFull b with
  | .error e => showLoadErr e
  | .ok (_, rest) => Id.run do
    let n := b.length - rest.length
    let mut acc := 0
    let mut first := "-"
    for k in [0:n] do
      match readFull (b.take k) with
      | .ok _ =>
        acc := acc + 1
        if first = "-" then first := toString k
      | .error _ => pure ()
    return s!"{n} {acc} {first}"

def showFault : Fault → String
  | .vectorIndex => "fault:vector-index"
  | .oobRead => "fault:oob-read"

def showExtract (r : FaultM Bytes) : Except Fault String :=
  match r with
  | .error f => .error f
  | .ok (.error _) => .ok "e"
  | .ok (.ok bmp) => .ok ("o:" ++ showBytes bmp)

def cmdUse (b pix : Bytes) (extra : Nat) : String :=
  match readFull b with
  | .error e => showLoadErr e
  | .ok ((_, a), _) =>
    let n := a.imageMetas.length
    let v := String.join ((List.range (n + extra + 1)).map fun i => match verifyIndex a i with | .ok _ => "o" | .error _ => "e")
    let w := match write a with | .ok w => showBytes w | .error _ => "refused"
    let counts : Except Fault (Nat × Nat) := (List.range a.animations.length).foldlM (fun (acc : Nat × Nat) i =>
      match frameCount a i with
      | .error f => .error f
      | .ok nf => (List.range nf).foldlM (fun (acc : Nat × Nat) j =>
          match layerCount a i j with
          | .error f => .error f
          | .ok nl => .ok (acc.1, acc.2 + nl)) (acc.1 + nf, acc.2)) (0, 0)
    let xs : Except Fault (List String) := (List.range (n + extra + 1)).mapM fun i => showExtract (extractImage a i pix)
    match counts, xs with
    | .error f, _ => showFault f
    | _, .error f => showFault f
    | .ok (nf, nl), .ok xs =>
      s!"ok v={v} w={w} c={n}/{a.animations.length}/{nf}/{nl} x=" ++ ",".intercalate xs

def cmdExtract (b : Bytes) (i : Nat) (pix : Bytes) : String :=
  match readFull b with
  | .error .alloc => "err:alloc"
  | .error _ => "err-load"
  | .ok ((_, a), _) =>
    match showExtract (extractImage a i pix) with
    | .error f => showFault f
    | .ok s => s

def cmdDefault : String :=
  match write ⟨[], [], [], 0⟩ with
  | .ok w => s!"ok {showBytes w}"
  | .error _ => "err"

end PrtD

open PrtD in
def handlePrt (cmd : String) (args : List String) : Option String :=
  match cmd, args with
  | "prt.read", [b] => do let b ← hex? b; pure (cmdRead b)
  | "prt.rules", [b] => do let b ← hex? b; pure (cmdRules b)
  | "prt.rt", [b] => do let b ← hex? b; pure (cmdRt b)
  | "prt.wr", [b, ops] => do let b ← hex? b; cmdWr b ops
  | "prt.wrfail", [b, cap] => do let b ← hex? b; let cap ← nat? cap; if cap > 2 ^ 24 then none else cmdWrFail b cap
  | "prt.lc", [l, c, f1, f2] => do
      let l ← nat? l; let c ← nat? c; let f1 ← nat? f1; let f2 ← nat? f2; pure (cmdLc l c f1 f2)
  | "prt.lcsweep", [m] => do let m ← nat? m; if m > 400 then none else pure (cmdLcSweep m)
  | "prt.prefixes", [b] => do let b ← hex? b; pure (cmdPrefixes b)
  | "prt.use", [b, pix, extra] => do
      let b ← hex? b; let pix ← hex? pix; let extra ← nat? extra
      if extra > 8 then none else pure (cmdUse b pix extra)
  | "prt.extract", [b, i, pix] => do let b ← hex? b; let i ← nat? i; let pix ← hex? pix; pure (cmdExtract b i pix)
  | "prt.default", [f] => do let f ← nat? f; if f > 255 then none else pure cmdDefault
  | _, _ => none
end Driver
