import Driver.Util
import Op2Model.HuffArr
/-! group `huff` (C15): update histories on the model tree, mirrored from harness/drv/huff.cpp -/
namespace Driver
open Op2 Op2.Huff Op2.Huff.TF

namespace HuffDrv

def fnvInit : Nat := 14695981039346656037
/-- FNV-1a over the 8 little-endian bytes of `v` (machine words: this is protocol plumbing, not model) -/
def hashAdd (h v : Nat) : Nat :=
  let v64 := v.toUInt64
  let step (h : UInt64) (i : UInt64) : UInt64 := (h ^^^ ((v64 >>> (8 * i)) &&& 255)) * 1099511628211
  (step (step (step (step (step (step (step (step h.toUInt64 0) 1) 2) 3) 4) 5) 6) 7).toNat

/-- the three tables of a tree frozen into arrays (entries `< n` resp. `< n + T`); executing the function-level model
    through a long history would otherwise chain one closure per store -/
structure Snap where
  T : Nat
  link : Array Nat
  cnt : Array Nat
  par : Array Nat

def Snap.toTF (s : Snap) : TF :=
  { T := s.T, link := fun i => s.link.getD i 0, cnt := fun i => s.cnt.getD i 0, par := fun i => s.par.getD i 0 }

def snap (t : TF) : Snap :=
  { T := t.T,
    link := Array.ofFn (n := t.n) (fun i => t.link i.val),
    cnt := Array.ofFn (n := t.n) (fun i => t.cnt i.val),
    par := Array.ofFn (n := t.n + t.T) (fun i => t.par i.val) }

structure Digest where
  codes : Nat
  shape : Nat
  mismatch : Nat
  visited : Nat
  leaves : Nat
  refEqual : Bool

/-- preorder shape (isLeaf, data, depth) through `isLeaf / nodeData / link`, with a budget like the C++ side -/
partial def walkShape (t : TF) (node depth : Nat) (st : Nat × Nat × Nat × Nat) : Nat × Nat × Nat × Nat :=
  let (h, visited, leaves, budget) := st
  if budget = 0 then st else
  let budget := budget - 1
  let visited := visited + 1
  if isLeaf t node then
    (hashAdd (hashAdd (hashAdd h 1) (nodeData t node)) depth, visited, leaves + 1, budget)
  else
    let h := hashAdd (hashAdd (hashAdd h 0) 0) depth
    let st := walkShape t (t.link node) (depth + 1) (h, visited, leaves, budget)
    walkShape t (t.link node + 1) (depth + 1) st

def digest (t tref : TF) : Digest := Id.run do
  let mut hc := fnvInit
  let mut mism := 0
  for c in [0:t.T] do
    let ups := up t (t.par (c + t.n)) t.n        -- leaf-to-root branch bits
    let bits := ups.length
    let str := ups.foldl (fun acc b => (acc * 2 + b) % W32) 0
    hc := hashAdd (hashAdd hc bits) str
    let leaf := walk t t.root ups.reverse
    if !(isLeaf t leaf && nodeData t leaf == c) then mism := mism + 1
  let (hs, visited, leaves, _) := walkShape t t.root 0 (fnvInit, 0, 0, 4 * t.n + 8)
  let (hr, _, _, _) := walkShape tref tref.root 0 (fnvInit, 0, 0, 4 * tref.n + 8)
  return { codes := hc, shape := hs, mismatch := mism, visited := visited, leaves := leaves, refEqual := hs == hr }

structure Run where
  all : Nat := fnvInit
  mismatch : Nat := 0
  refDiff : Nat := 0
  badShape : Nat := 0
  digests : Nat := 0

def Run.take (r : Run) (d : Digest) (T : Nat) : Run :=
  { all := hashAdd (hashAdd r.all d.codes) d.shape, digests := r.digests + 1,
    mismatch := r.mismatch + d.mismatch, refDiff := r.refDiff + (if d.refEqual then 0 else 1),
    badShape := r.badShape + (if d.visited != 2 * T - 1 || d.leaves != T then 1 else 0) }

def Run.str (r : Run) : String :=
  s!"{r.all} digests={r.digests} decode-mismatch={r.mismatch} ref-diff={r.refDiff} bad-shape={r.badShape}"

/-- one accepted update on the model tree (the array tree `TA`, proved to refine the function-level tree) and on
    the function-level reference, re-frozen -/
def stepBoth (s : TA) (sr : Snap) (code : Nat) : Option (TA × Snap) :=
  match s.updateChecked code with
  | .ok t' => some (t', snap (Ref.update sr.toTF code))
  | .error _ => none

def parseCodes (s : String) : Option (List Nat) :=
  if s = "-" then some [] else (s.splitOn ",").mapM (·.toNat?)

def M64 : Nat := W64
def lcg (s : Nat) : Nat := (s * 6364136223846793005 + 1442695040888963407) % W64

/-- returns (code, new state) -/
def genCode (kind : String) (T i state : Nat) : Option (Nat × Nat) :=
  if kind = "single" then some (state % T, state)
  else if kind = "roundrobin" then some ((i + state) % T, state)
  else if kind = "sawtooth" then
    let p := i % (2 * T); some (if p < T then p else 2 * T - 1 - p, state)
  else if kind = "skew" then
    let st := lcg state; let r := (st >>> 33) % 1000
    some (if r < 900 then (r % 3) % T else (st >>> 43) % T, st)
  else if kind = "dom" then
    if i < 40000 then some (state % T, state)
    else some ((((i * 6364136223846793005 + state * 1442695040888963407 + 12345) % W64) >>> 33) % T, state)
  else if kind = "fib" then
    let rec go (fuel a b lo sym : Nat) : Nat :=
      match fuel with
      | 0 => sym
      | f + 1 => if i < lo + a then sym else go f b (a + b) (lo + a) (sym + 1)
    some ((go 64 200 304 0 0 + state) % T, state)
  else if kind = "rand" then
    let st := lcg state; some ((st >>> 33) % T, st)
  else none

def hist (T : Nat) (codes : List Nat) : String := Id.run do
  let mut s := TA.init T
  let mut sr := snap (init T)
  let mut run : Run := {}
  run := run.take (digest s.view sr.toTF) T
  let mut k := 0
  for c in codes do
    let before := digest s.view sr.toTF
    match stepBoth s sr c with
    | none =>
      let after := digest s.view sr.toTF
      let same := before.codes == after.codes && before.shape == after.shape
      return s!"refused@{k} unchanged={showBool same} {run.str}"
    | some (s', sr') =>
      s := s'; sr := sr'
      run := run.take (digest s.view sr.toTF) T
    k := k + 1
  return s!"ok {run.str}"

/-- the same history executed on the function-level model without freezing; used to check the freezing itself -/
def histPure (T : Nat) (codes : List Nat) : Option (Nat × Nat) := do
  let mut t := init T
  let mut tr := init T
  for c in codes do
    match updateChecked t c with
    | .ok t' => t := t'; tr := Ref.update tr c
    | .error _ => none
  let d := digest t tr
  pure (d.codes, d.shape)

def histSnap (T : Nat) (codes : List Nat) : Option (Nat × Nat) := do
  let mut s := TA.init T
  let mut sr := snap (init T)
  for c in codes do
    let (s', sr') ← stepBoth s sr c
    s := s'; sr := sr'
  let d := digest s.view sr.toTF
  pure (d.codes, d.shape)

/-- long generated histories run on the array tree only; the Lean reference is not executed here (its equality with
    the model on every history is `C15_ref_history`), so the `ref-diff` the model prints is 0 by that theorem -/
def gen (T : Nat) (kind : String) (len seed every : Nat) : Option String := do
  let mut s := TA.init T
  let mut run : Run := {}
  let mut state := seed
  for i in [0:len] do
    let (code, st) ← genCode kind T i state
    state := st
    let near := i + T + 4 ≥ 65535
    match s.updateChecked code with
    | .error _ =>
      run := run.take (digest s.view s.view) T
      return s!"refused@{i} unchanged=1 {run.str}"      -- the model's refusal returns no new tree at all
    | .ok s' =>
      s := s'
      if (i + 1) % every == 0 || near then run := run.take (digest s.view s.view) T
  run := run.take (digest s.view s.view) T
  return s!"ok {run.str}"

partial def enumRec (s : TA) (sr : Snap) (T depth : Nat) (run : Run) : Run := Id.run do
  if depth = 0 then return run
  let mut run := run
  for c in [0:T] do
    match stepBoth s sr c with
    | none => run := { run with badShape := run.badShape + 1 }
    | some (s', sr') =>
      run := run.take (digest s'.view sr'.toTF) T
      run := enumRec s' sr' T (depth - 1) run
  return run

def enumAll (T depth : Nat) (pre : List Nat) : String := Id.run do
  let mut s := TA.init T
  let mut sr := snap (init T)
  for c in pre do
    match stepBoth s sr c with
    | none => return "refused-in-prefix"
    | some (s', sr') => s := s'; sr := sr'
  let run : Run := ({} : Run).take (digest s.view sr.toTF) T
  return s!"ok {(enumRec s sr T depth run).str}"

def bad (T : Nat) (pre : List Nat) (op : String) (arg : Nat) : Option String := do
  let mut s := TA.init T
  let mut sr := snap (init T)
  for c in pre do
    match stepBoth s sr c with
    | none => return "refused-in-prefix"
    | some (s', sr') => s := s'; sr := sr'
  let t := s.view
  let showE {α : Type} (f : α → String) : Except Err α → String := fun r => match r with | .ok v => "ok:" ++ f v | .error _ => "err"
  let (r, s2, sr2) ←
    if op = "update" then
      match stepBoth s sr arg with
      | some (s', sr') => some ("ok", s', sr')
      | none => some ("err", s, sr)
    else if op = "encode" then
      if arg ≥ t.T then some ("err", s, sr) else
        let ups := up t (t.par (arg + t.n)) t.n
        some (s!"ok:{ups.length}:{ups.foldl (fun acc b => (acc * 2 + b) % W32) 0}", s, sr)
    else if op = "child0" then some (showE (fun v => toString (u16 v)) (s.child arg 0), s, sr)
    else if op = "child1" then some (showE (fun v => toString (u16 v)) (s.child arg 1), s, sr)
    else if op = "isleaf" then some (showE showBool (s.isLeaf arg), s, sr)
    else if op = "data" then
      -- `linkOrData[node] - nodeCount` is computed in `unsigned short`: for an inner node it wraps
      some (if arg < t.n then s!"ok:{u16 (W16 + t.link arg - t.n)}" else showE toString (s.nodeData arg), s, sr)
    else none
  let before := digest s.view sr.toTF
  let after := digest s2.view sr2.toTF
  let same := before.codes == after.codes && before.shape == after.shape
  pure s!"{r} unchanged={showBool same} decode-mismatch={after.mismatch} ref-diff={if after.refEqual then 0 else 1}"

end HuffDrv

def handleHuff (cmd : String) (args : List String) : Option String :=
  match cmd, args with
  | "huff.hist", [T, codes] => do
      let T ← nat? T; let codes ← HuffDrv.parseCodes codes
      if T < 2 || T > 20000 then none else pure (HuffDrv.hist T codes)
  | "huff.gen", [T, kind, len, seed, every] => do
      let T ← nat? T; let len ← nat? len; let seed ← nat? seed; let every ← nat? every
      if T < 2 || T > 20000 || every == 0 then none else HuffDrv.gen T kind len seed every
  | "huff.gen", [T, kind, len, seed, every, k] => do
      -- k refused out-of-range updates first: no-ops in the model (C15_node_refused)
      let T ← nat? T; let len ← nat? len; let seed ← nat? seed; let every ← nat? every; let _ ← nat? k
      if T < 2 || T > 20000 || every == 0 then none else HuffDrv.gen T kind len seed every
  | "huff.enum", [T, depth] => do
      let T ← nat? T; let depth ← nat? depth
      if T < 2 || T > 64 || depth > 12 then none else pure (HuffDrv.enumAll T depth [])
  | "huff.enum", [T, depth, pre] => do
      let T ← nat? T; let depth ← nat? depth; let pre ← HuffDrv.parseCodes pre
      if T < 2 || T > 64 || depth > 12 then none else pure (HuffDrv.enumAll T depth pre)
  | "huff.bad", [T, pre, op, arg] => do
      let T ← nat? T; let pre ← HuffDrv.parseCodes pre; let arg ← nat? arg
      if T < 2 || T > 20000 || arg > 65535 then none else HuffDrv.bad T pre op arg
  | "huff.snapcheck", [T, codes] => do
      let T ← nat? T; let codes ← HuffDrv.parseCodes codes
      pure (showBool (HuffDrv.histPure T codes == HuffDrv.histSnap T codes))
  | _, _ => none
end Driver
