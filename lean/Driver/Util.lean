import Op2Model
/-! line-protocol helpers shared by the driver groups -/
namespace Driver
open Op2

def hex? (s : String) : Option Bytes := bytesOfHex s
def nat? (s : String) : Option Nat := s.toNat?
def int? (s : String) : Option Int := s.toInt?

def showBool (b : Bool) : String := if b then "1" else "0"
def showErr : Err → String
  | _ => "err"
def showExceptBytes : Except Err Bytes → String
  | .ok b => hexOfBytes b
  | .error _ => "err"

def joinWith (sep : String) (xs : List String) : String := sep.intercalate xs

end Driver
