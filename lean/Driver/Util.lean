import Op2Model
/-! line-protocol helpers shared by the driver groups -/
namespace Driver
open Op2

def hex? (s : String) : Option Bytes := bytesOfHex s
/-- data argument: hex, or `gen:<len>:<seed>` (same formula as harness/drv/stream.cpp `dataArg`) -/
def data? (s : String) : Option Bytes :=
  match s.splitOn ":" with
  | ["gen", n, seed] => do
      let n ← n.toNat?; let seed ← seed.toNat?
      pure ((List.range n).map fun i => UInt8.ofNat ((i * 131 + seed * 7 + (i >>> 8)) % 256))
  | _ => bytesOfHex s
def nat? (s : String) : Option Nat := s.toNat?
def int? (s : String) : Option Int := s.toInt?

def showBool (b : Bool) : String := if b then "1" else "0"
def showErr : Err → String
  | _ => "err"
def showExceptBytes : Except Err Bytes → String
  | .ok b => hexOfBytes b
  | .error _ => "err"

def joinWith (sep : String) (xs : List String) : String := sep.intercalate xs

end Driver
