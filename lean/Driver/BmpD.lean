import Driver.Util
import Op2Model.Gen.Formulas
/-! groups `bmp` / `ts` (C08, C09, C11_bmp), mirrored from harness/drv/bmp.cpp -/
namespace Driver
open Op2 Op2.Bmp

namespace BmpD

def showB (b : Bytes) : String := if b.length ≤ 65536 then hexOfBytes b else s!"#{b.length}:{fnv1a b}"

def dump (f : Bmp) : String :=
  let b := f.bh; let h := f.ih
  s!"{hexOfBytes b.sig},{b.size},{b.pixelOffset},{b.reserved1},{b.reserved2}" ++
  s!"|{h.headerSize},{h.width},{h.height},{h.planes},{h.bitCount},{h.compression},{h.imageSize},{h.xRes},{h.yRes},{h.used},{h.important}" ++
  s!"|{f.palette.length}:{showB (encPalette f.palette)}|{f.pixels.length}:{showB f.pixels}"

def showOut {α : Type} (sh : α → String) : Out α → String
  | .ok a => sh a
  | .err .alloc => "err:alloc"
  | .err _ => "err"
  | .fault _ => "fault:model"

def okStr {α : Type} (_ : α) : String := "ok"

def battery (f : Bmp) : String :=
  dump f ++
  " v=" ++ showOut okStr (validate f) ++
  " pv=" ++ showOut okStr (verifyPalette f) ++
  " xv=" ++ showOut okStr (verifyPixelSize f.ih.bitCount f.ih.width f.ih.height f.pixels.length) ++
  " W=" ++ showOut showB (write f) ++
  " F=" ++ showOut showB (writeFile f) ++
  " abs=" ++ showOut toString (absoluteHeight f) ++
  " or=" ++ (if isTopDown f then "T" else "B") ++
  " I=" ++ showOut dump (invert f) ++
  " S=" ++ showB (encPalette (swapRedAndBlue f).palette) ++
  " vt=" ++ showOut okStr (Tileset.validateTs f) ++
  " C=" ++ showOut showB (Tileset.writeCustom f)

def prefixes (rd : Bytes → Bool) (b : Bytes) : String := Id.run do
  let mut acc : List String := []
  for k in [0:b.length] do
    if rd (b.take k) then acc := toString k :: acc
  let l := acc.reverse
  return s!"n={b.length} acc=" ++ (if l.isEmpty then "-" else ",".intercalate l)

def hashAdd8 (h v : Nat) : Nat := Id.run do
  let mut h := h
  for i in [0:8] do
    h := ((h ^^^ ((v >>> (8 * i)) % 256)) * 1099511628211) % W64
  return h

def colorsOf (b : Bytes) : Option (List Color) :=
  if b.length % 4 ≠ 0 then none else
  some ((List.range (b.length / 4)).map fun i => Color.ofBytes (b.drop (4 * i)))

def pitchSweep (bits : Nat) (w0 w1 : Int) : String := Id.run do
  let mut h := 14695981039346656037
  let mut bad := 0
  let n := (w1 - w0).toNat
  for i in [0:n] do
    let w : Int := w0 + i
    let w32 : Int := Op2.i32 (toU32 w)
    let p := pitch bits w32
    let q := pixByteWidth bits w32
    h := hashAdd8 h q
    h := hashAdd8 h p
    if w ≥ 0 then
      let need := (w.toNat * bits + 7) / 8
      if p % 4 ≠ 0 ∨ p < need ∨ p ≥ need + 4 ∨ q ≠ need then bad := bad + 1
  return s!"{h} bad={bad}"

end BmpD
open BmpD

def handleBmp (cmd : String) (args : List String) : Option String :=
  match cmd, args with
  | "bmp.read", [x] => do
      let b ← hex? x
      pure (match Bmp.read b with
        | .ok f => dump f ++ " v=" ++ showOut okStr (validate f)
        | o => showOut dump o)
  | "bmp.rt", [x] => do
      let b ← hex? x
      pure (match Bmp.read b with
        | .ok f =>
          (match write f with
           | .ok w => dump f ++ " v=" ++ showOut okStr (validate f) ++ " W=" ++ showB w ++ " R=" ++ showOut dump (Bmp.read w)
           | .fault _ => "fault:model"
           | .err _ => dump f ++ " v=" ++ showOut okStr (validate f) ++ " W=err")
        | o => showOut dump o)
  | "bmp.create", [v, bits, w, h, pal, pix] => do
      let v ← nat? v; let bits ← nat? bits; let w ← nat? w; let h ← int? h
      let pal ← hex? pal; let pix ← hex? pix
      let pal ← colorsOf pal
      let bits := bits % W16; let w := w % W32; let h := Op2.i32 (toU32 h)
      let o ← (match v with
        | 1 => some (create1 bits w h)
        | 2 => some (create2 bits w h pal)
        | 3 => some (create3 bits w h pal pix)
        | _ => none)
      pure (match o with
        | .ok f =>
          let s := dump f ++ " v=" ++ showOut okStr (validate f)
          (match write f with
           | .ok wr =>
             s ++ " W=" ++ showB wr ++
             (match Bmp.read wr with
              | .ok g => " R=" ++ dump g ++ " eq=" ++ (if g = f then "1" else "0")
              | .fault _ => " R=fault:model eq=0"
              | .err _ => " R=err eq=0")
           | .fault _ => "fault:model"
           | .err _ => s ++ " W=err")
        | o => showOut dump o)
  | "bmp.invert", [x] => do
      let b ← hex? x
      pure (match Bmp.read b with
        | .ok f =>
          (match invert f with
           | .ok g =>
             (match invert g with
              | .ok g2 => dump f ++ " I=" ++ dump g ++ " II=" ++ dump g2 ++ " eq=" ++ (if g2 = f then "1" else "0")
              | _ => "fault:model")
           | _ => "fault:model")
        | o => showOut dump o)
  | "bmp.use", [x] => do
      let b ← hex? x
      pure (match Bmp.read b with
        | .ok f => battery f
        | o => showOut dump o)
  | "bmp.prefixes", [x] => do
      let b ← hex? x
      pure (prefixes (fun p => (Bmp.read p).isOk) b)
  | "bmp.pitch", [bits, w] => do
      let bits ← nat? bits; let w ← int? w
      let w := Op2.i32 (toU32 w)
      pure s!"{pixByteWidth (bits % W16) w} {pitch (bits % W16) w}"
  | "bmp.pitchgen", [bits, w] => do
      let bits ← nat? bits; let w ← int? w
      let w := Op2.i32 (toU32 w)
      -- (a function that left the translator's fragment is tied by the model functions alone)
      if Op2.Gen.Formulas.gen_CalcPixelByteWidth_translated && Op2.Gen.Formulas.gen_CalculatePitch_translated then
        pure s!"{Op2.Gen.Formulas.gen_CalcPixelByteWidth ((bits % W16 : Nat) : Int) w} {Op2.Gen.Formulas.gen_CalculatePitch ((bits % W16 : Nat) : Int) w}"
      else pure s!"{pixByteWidth (bits % W16) w} {pitch (bits % W16) w}"
  | "bmp.pitchsweep", [bits, w0, w1] => do
      let bits ← nat? bits; let w0 ← int? w0; let w1 ← int? w1
      pure (pitchSweep (bits % W16) w0 w1)
  | "ts.peek", [x, pos] => do
      let b ← hex? x; let pos ← nat? pos
      -- the harness seeks to `pos` first (an out-of-range seek is an error of the harness call, printed as `err`)
      if pos > b.length then pure "err" else
      let (r, s') := Tileset.peekIsCustom { data := b, pos := pos }
      pure ((match r with | .ok true => "1" | .ok false => "0" | .error _ => "err") ++ s!" {s'.pos}")
  | "ts.load", [x] => do
      let b ← hex? x
      pure (showOut dump (Tileset.read b))
  | "ts.save", [x] => do
      let b ← hex? x
      pure (match Bmp.read b with
        | .ok p =>
          let c := Tileset.writeCustom p
          let wb := write p
          dump p ++
          " C=" ++ showOut showB c ++
          " LC=" ++ (match c with | .ok cb => showOut dump (Tileset.read cb) | _ => "none") ++
          " Wb=" ++ showOut showB wb ++
          " LB=" ++ (match wb with | .ok w => showOut dump (Tileset.read w) | _ => "none")
        | o => showOut dump o)
  | "ts.specenc", [x] => do
      let b ← hex? x
      pure (match Bmp.read b with
        | .ok p => if Tileset.ValidPicture p then showB (Tileset.Spec.encode (Tileset.picture p)) else "err"
        | o => showOut dump o)
  | "ts.use", [x] => do
      let b ← hex? x
      pure (match Tileset.read b with
        | .ok f => battery f
        | o => showOut dump o)
  | "ts.prefixes", [x] => do
      let b ← hex? x
      pure (prefixes (fun p => (Tileset.read p).isOk) b)
  | _, _ => none
end Driver
